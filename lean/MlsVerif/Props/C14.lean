import MlsVerif.Proofs.Hpke
import MlsVerif.Proofs.HpkeBytes
import MlsVerif.Proofs.X509
/-
C14: "The shipped crypto providers are interchangeable."

HPKE part.  `mls-rs-crypto-hpke` (model: `Model/Hpke.lean`) is ONE generic construction that all
three providers instantiate with their own primitives (`KdfType`, `AeadType`, `DhType`).  The
theorems say, for every input:
  (a) sender and receiver derive the same context               `setup_agree`
  (b) a sealed message sequence opens in order                   `seal_open_seq`, `open_wrong_aad`,
                                                                 `open_out_of_order`
  (c) nonces are injective in the counter; no wrap, no reuse     `nonce_injective`, `seq_never_wraps`,
                                                                 `no_nonce_reuse`
  (d) exporters agree; export-only mode                          `export_agree`, `export_only`
  (e) the construction is a function of the primitives only      `interchangeable`, `interop`
  (f) DHKEM correctness and context binding                      `dhkem_correct`, `kem_context_binds`
  (g) PSK input rules as enforced                                `psk_rules`
so two providers interoperate as soon as their primitives agree as functions — which is what the
differential harness tests on bytes.

X.509 part (section `X509`): properties of the reference verdict `Model/X509.lean` against which the
three validators are compared.

Only statements and non-vacuity examples live here; proofs are in `Proofs/Hpke.lean`,
`Proofs/X509.lean`.
-/
namespace MlsVerif.Props.C14
open MlsVerif.Hpke

variable {B R R₁ R₂ : Type}

/-! ### (a) setup -/

/-- If the KEM is correct for this encapsulation (`decap enc skR pkR` returns the sender's shared
secret), `setup_receiver` returns exactly what `setup_sender` returned as context — or fails with
the same error (same psk check, same KDF errors) —, in base mode (`psk = none`) and psk mode
(`psk = some _`); the `enc` the sender outputs is the KEM's. -/
theorem setup_agree (H : Hpke B R) {skR pkR : B} (rnd : R) (info : B) (psk : Option (Psk B))
    {ss enc : B} (he : H.kem.encap pkR rnd = some (ss, enc))
    (hd : H.kem.decap enc skR pkR = some ss) :
    H.setupReceiver enc skR pkR info psk = (H.setupSender pkR rnd info psk).map Prod.snd ∧
    ∀ e ctx, H.setupSender pkR rnd info psk = .ok (e, ctx) → e = enc :=
  setupReceiver_eq_sender (SameSchedule.refl H) rnd info psk he hd

/-- the receiver fails iff the sender fails, with the same error -/
theorem setup_agree_fail (H : Hpke B R) {skR pkR : B} (rnd : R) (info : B) (psk : Option (Psk B))
    {ss enc : B} (he : H.kem.encap pkR rnd = some (ss, enc))
    (hd : H.kem.decap enc skR pkR = some ss) (err : Err) :
    H.setupReceiver enc skR pkR info psk = .error err ↔
      H.setupSender pkR rnd info psk = .error err := by
  rw [(setup_agree H rnd info psk he hd).1]
  cases H.setupSender pkR rnd info psk with
  | error e => simp [Except.map]
  | ok r => simp [Except.map]

/-- the common context is fresh: sequence number 0, key of `Nk` and base nonce of `Nn` bytes (or no
encryption part at all in the export-only construction) -/
theorem setup_fresh (H : Hpke B R) {pkR : B} {rnd : R} {info : B} {psk : Option (Psk B)}
    {enc : B} {ctx : Context B} (h : H.setupSender pkR rnd info psk = .ok (enc, ctx)) :
    match H.aead, ctx.enc with
    | none, none => True
    | some A, some e => e.seq = 0 ∧ H.ops.size e.key = A.keySize ∧ H.ops.size e.baseNonce = A.nonceSize
    | _, _ => False := by
  unfold Hpke.setupSender at h
  cases he : H.kem.encap pkR rnd with
  | none => rw [he] at h; cases h
  | some r =>
    obtain ⟨ss, enc'⟩ := r
    rw [he] at h
    simp only at h
    cases hk : H.keySchedule (baseMode psk) ss info psk with
    | error e => rw [hk] at h; cases h
    | ok c =>
      rw [hk] at h
      simp only [Except.ok.injEq, Prod.mk.injEq] at h
      obtain ⟨_, rfl⟩ := h
      exact keySchedule_ok H hk

/-! ### (b) sealing and opening sequences -/

/-- With an AEAD whose `open` inverts `seal`: whatever list of `(aad, pt)` messages the sender
context seals in order, the receiver context (the same data, by (a)) opens in order to the same
plaintexts, and both end in the same state (equal sequence numbers at every step). -/
theorem seal_open_seq (H : Hpke B R) (hinv : AeadRel AeadInverse H H) (msgs : List (Option B × B))
    (c c' : Context B) (cts : List B) (h : sealMany H c msgs = .ok (cts, c')) :
    openMany H c ((msgs.map Prod.fst).zip cts) = .ok (msgs.map Prod.snd, c') ∧
    cts.length = msgs.length :=
  openMany_of_sealMany rfl hinv msgs c c' cts h

/-- With a binding AEAD (`AeadBinding`: a ciphertext opens under no other (nonce, aad) pair for the
same key) a message does not open with another aad: `AeadError`. -/
theorem open_wrong_aad (H : Hpke B R) (hb : AeadRel AeadBinding H H) {c c' : Context B}
    {aad aad' : Option B} {pt ct : B} (h : H.sealMsg c aad pt = .ok (ct, c')) (hne : aad' ≠ aad) :
    H.openMsg c aad' ct = .error .aeadError :=
  Hpke.open_wrong_aad rfl hb h hne

/-- … and not out of order: a receiver context with the same key and base nonce whose counter
differs from the one the message was sealed under returns `AeadError` (needs, besides binding, that
the nonces differ: `Nn ≥ 8` and lawful byte operations). -/
theorem open_out_of_order (H : Hpke B R) (hO : H.ops.Lawful) (hb : AeadRel AeadBinding H H)
    {c c' : Context B} {aad aad' : Option B} {pt ct : B} (h : H.sealMsg c aad pt = .ok (ct, c'))
    {e eR : EncCtx B} (he : c.enc = some e) {cR : Context B} (heR : cR.enc = some eR)
    (hk : eR.key = e.key) (hn : eR.baseNonce = e.baseNonce) (hseq : eR.seq ≠ e.seq)
    (hlt : eR.seq < seqLimit) (h8 : 8 ≤ (H.ops.bytes e.baseNonce).length) :
    H.openMsg cR aad' ct = .error .aeadError :=
  Hpke.open_out_of_order rfl hO hb h he heR hk hn hseq hlt h8

/-! ### (c) nonces and the sequence number -/

/-- `compute_nonce` is injective in `seq` below `2^(8·min(Nn, 8))`; for `Nn ≥ 8` on all of `u64`. -/
theorem nonce_injective (n : List UInt8) (s s' : Nat) :
    (s < 256 ^ min n.length 8 → s' < 256 ^ min n.length 8 → xorSeq n s = xorSeq n s' → s = s') ∧
    (8 ≤ n.length → s < 2 ^ 64 → s' < 2 ^ 64 → xorSeq n s = xorSeq n s' → s = s') ∧
    (xorSeq n s).length = n.length :=
  ⟨xorSeq_inj n s s', xorSeq_inj_u64 n s s', xorSeq_length n s⟩

/-- the same on the provider's byte strings -/
theorem nonce_injective_bytes (O : ByteOps B) (hO : O.Lawful) (base : B) (s s' : Nat)
    (hn : 8 ≤ (O.bytes base).length) (hs : s < 2 ^ 64) (hs' : s' < 2 ^ 64)
    (h : computeNonce O base s = computeNonce O base s') : s = s' :=
  computeNonce_inj O hO base s s' hn hs hs' h

/-- the bound is sharp: a nonce shorter than 8 bytes repeats (the code silently drops the high bytes
of the counter; no shipped AEAD has `Nn < 8`) -/
example : xorSeq [0] 0 = xorSeq [0] 256 := by decide

/-- the counter never wraps: at `seq = u64::MAX` neither `seal` nor `open` succeeds; if the AEAD
call itself succeeds the error is `SequenceNumberOverflow` (and the state is left as it is, so every
later call fails the same way) -/
theorem seq_never_wraps (H : Hpke B R) {c : Context B} {e : EncCtx B} (he : c.enc = some e)
    (hmax : 2 ^ 64 ≤ e.seq + 1) (aad : Option B) (x : B) :
    (∀ r, H.sealMsg c aad x ≠ .ok r) ∧ (∀ r, H.openMsg c aad x ≠ .ok r) ∧
    (∀ A ct, H.aead = some A →
      A.sealF e.key (computeNonce H.ops e.baseNonce e.seq) aad x = some ct →
      H.sealMsg c aad x = .error .sequenceNumberOverflow) ∧
    (∀ A pt, H.aead = some A →
      A.openF e.key (computeNonce H.ops e.baseNonce e.seq) aad x = some pt →
      H.openMsg c aad x = .error .sequenceNumberOverflow) :=
  ⟨(sealMsg_at_max H he hmax aad x).1, (openMsg_at_max H he hmax aad x).1,
   (sealMsg_at_max H he hmax aad x).2, (openMsg_at_max H he hmax aad x).2⟩

/-- every successful step adds exactly one to the counter and stays below `2^64` -/
theorem seq_steps (H : Hpke B R) (msgs : List (Option B × B)) (c c' : Context B) (cts : List B)
    (h : sealMany H c msgs = .ok (cts, c')) (hne : msgs ≠ []) :
    ∃ e e', c.enc = some e ∧ c'.enc = some e' ∧ e'.seq = e.seq + msgs.length ∧ e'.seq < 2 ^ 64 ∧
      e'.key = e.key ∧ e'.baseNonce = e.baseNonce :=
  (sealMany_seq H msgs c c' cts h).2.2 hne

/-- no nonce is used twice: in a successful run message `i` is sealed under the nonce of `seq + i`
(`expectedCts`), all those counters are below `2^64`, and their nonces are pairwise different -/
theorem no_nonce_reuse (H : Hpke B R) (hO : H.ops.Lawful) (msgs : List (Option B × B))
    (c c' : Context B) (cts : List B) {A : Aead B} {e : EncCtx B} (hA : H.aead = some A)
    (he : c.enc = some e) (h8 : 8 ≤ (H.ops.bytes e.baseNonce).length)
    (h : sealMany H c msgs = .ok (cts, c')) :
    cts.map some = expectedCts H.ops A e.key e.baseNonce e.seq msgs ∧
    ∀ i j, i < j → j < msgs.length →
      computeNonce H.ops e.baseNonce (e.seq + i) ≠ computeNonce H.ops e.baseNonce (e.seq + j) := by
  refine ⟨sealMany_cts H msgs c c' cts hA he h, fun i j hij hj => ?_⟩
  have hne : msgs ≠ [] := by intro h0; rw [h0] at hj; simp at hj
  obtain ⟨e₀, e', h1, _, h3, h4, _, _⟩ := (sealMany_seq H msgs c c' cts h).2.2 hne
  rw [he] at h1; cases h1
  have : e.seq + msgs.length < seqLimit := by rw [← h3]; exact h4
  exact computeNonce_ne H.ops hO _ _ _ h8 (by omega) (by omega) (by omega)

/-! ### (d) export -/

/-- both sides export the same bytes for every context string and length, at any point of the
conversation (`seal`/`open` do not touch the exporter secret) -/
theorem export_agree (H : Hpke B R) {skR pkR : B} (rnd : R) (info : B) (psk : Option (Psk B))
    {ss enc : B} (he : H.kem.encap pkR rnd = some (ss, enc))
    (hd : H.kem.decap enc skR pkR = some ss) {cS : Context B}
    (hS : H.setupSender pkR rnd info psk = .ok (enc, cS)) :
    (∃ cR, H.setupReceiver enc skR pkR info psk = .ok cR ∧
      ∀ ec len, H.exportSecret cR ec len = H.exportSecret cS ec len) ∧
    ∀ msgs cts cS', sealMany H cS msgs = .ok (cts, cS') →
      ∀ ec len, H.exportSecret cS' ec len = H.exportSecret cS ec len := by
  constructor
  · refine ⟨cS, ?_, fun _ _ => rfl⟩
    rw [(setup_agree H rnd info psk he hd).1, hS]; rfl
  · intro msgs cts cS' h ec len
    unfold Hpke.exportSecret
    rw [(sealMany_seq H msgs cS cS' cts h).1]

/-- export-only construction (`aead = None`): contexts have no encryption part, `seal` and `open`
return `ExportOnlyMode`, `export` is the same labelled expansion as always -/
theorem export_only (H : Hpke B R) (h : H.aead = none) :
    (∀ mode ss info psk c, H.keySchedule mode ss info psk = .ok c → c.enc = none) ∧
    (∀ c aad pt, H.sealMsg c aad pt = .error .exportOnlyMode) ∧
    (∀ c aad ct, H.openMsg c aad ct = .error .exportOnlyMode) ∧
    (∀ c ec len, H.exportSecret c ec len =
      orErr .kdfError (labeledExpand H.ops H.kdf H.suiteId c.exporterSecret "sec" ec len)) ∧
    H.aeadId = 0xFFFF := by
  refine ⟨?_, sealMsg_exportOnly H h, openMsg_exportOnly H h, fun _ _ _ => rfl, ?_⟩
  · intro mode ss info psk c hk
    have := keySchedule_ok H hk
    rw [h] at this
    cases hc : c.enc with
    | none => rfl
    | some e => rw [hc] at this; exact this.elim
  · unfold Hpke.aeadId; rw [h]

/-! ### (e) interchangeability -/

/-- Two provider records that agree pointwise on every primitive (`extract`, `expand`, `seal`, `open`,
`encap`, `decap`, `generate_deterministic`, byte operations) and on every parameter are the same
record, hence every operation of the construction returns identical results. -/
theorem interchangeable (H₁ H₂ : Hpke B R) (h : Hpke.Agree H₁ H₂) :
    H₁ = H₂ ∧
    H₁.suiteId = H₂.suiteId ∧
    H₁.keySchedule = H₂.keySchedule ∧
    H₁.setupSender = H₂.setupSender ∧
    H₁.setupReceiver = H₂.setupReceiver ∧
    H₁.sealMsg = H₂.sealMsg ∧
    H₁.openMsg = H₂.openMsg ∧
    H₁.exportSecret = H₂.exportSecret ∧
    H₁.sealBase = H₂.sealBase ∧
    H₁.openBase = H₂.openBase ∧
    H₁.derive = H₂.derive := by
  cases h.eq
  exact ⟨rfl, rfl, rfl, rfl, rfl, rfl, rfl, rfl, rfl, rfl, rfl⟩

/-- the same for DHKEM: pointwise equal `dh`, `to_public`, KDF, sizes ⇒ identical `encap`, `decap`,
`generate_deterministic`, and identical HPKE instances on top -/
theorem interchangeable_dhkem (D₁ D₂ : DhKem B) (h : DhKem.Agree D₁ D₂) :
    D₁.encap = D₂.encap ∧ D₁.decap = D₂.decap ∧
    D₁.generateDeterministic = D₂.generateDeterministic ∧
    D₁.candidate = D₂.candidate ∧ D₁.skWithoutSampling = D₂.skWithoutSampling ∧
    ∀ a, ofDhKem D₁ a = ofDhKem D₂ a := by
  cases h.eq
  exact ⟨rfl, rfl, rfl, rfl, rfl, fun _ => rfl⟩

/-- Cross-provider interoperability (base and psk mode).  Sender on provider `H₁`, receiver on
provider `H₂`.  Needed: the same KDF functions, byte operations and ids (`SameSchedule`), `H₂`'s
`open` inverts `H₁`'s `seal`, and `H₂` decapsulates this `enc` to the sender's shared secret.
NOT needed: equal `encap` (randomness differs), equal ciphertext formats beyond the inverse law.
Then the receiver's context is the sender's, every sealed sequence opens in order, the final states
coincide, and the exporters agree on both sides before and after. -/
theorem interop (H₁ : Hpke B R₁) (H₂ : Hpke B R₂) (hs : SameSchedule H₁ H₂)
    (hinv : AeadRel AeadInverse H₁ H₂) {skR pkR : B} (rnd : R₁) (info : B) (psk : Option (Psk B))
    {ss enc : B} (he : H₁.kem.encap pkR rnd = some (ss, enc))
    (hd : H₂.kem.decap enc skR pkR = some ss) {cS : Context B}
    (hS : H₁.setupSender pkR rnd info psk = .ok (enc, cS))
    (msgs : List (Option B × B)) (cts : List B) (cS' : Context B)
    (hseal : sealMany H₁ cS msgs = .ok (cts, cS')) :
    H₂.setupReceiver enc skR pkR info psk = .ok cS ∧
    openMany H₂ cS ((msgs.map Prod.fst).zip cts) = .ok (msgs.map Prod.snd, cS') ∧
    (∀ ec len, H₂.exportSecret cS ec len = H₁.exportSecret cS ec len) ∧
    (∀ ec len, H₂.exportSecret cS' ec len = H₁.exportSecret cS ec len) := by
  refine ⟨?_, (openMany_of_sealMany hs.ops hinv msgs cS cS' cts hseal).1, ?_, ?_⟩
  · rw [(setupReceiver_eq_sender hs rnd info psk he hd).1, hS]; rfl
  · intro ec len; exact (exportSecret_congr hs cS ec len).symm
  · intro ec len
    rw [← exportSecret_congr hs cS' ec len]
    unfold Hpke.exportSecret
    rw [(sealMany_seq H₁ msgs cS cS' cts hseal).1]

/-- failure is also interchangeable: whatever error the sender's `key_schedule` gives (psk too short,
KDF error, wrong key/nonce length) the receiver on the other provider gives too -/
theorem interop_fail (H₁ : Hpke B R₁) (H₂ : Hpke B R₂) (hs : SameSchedule H₁ H₂)
    {skR pkR : B} (rnd : R₁) (info : B) (psk : Option (Psk B))
    {ss enc : B} (he : H₁.kem.encap pkR rnd = some (ss, enc))
    (hd : H₂.kem.decap enc skR pkR = some ss) (err : Err) :
    H₂.setupReceiver enc skR pkR info psk = .error err ↔
      H₁.setupSender pkR rnd info psk = .error err := by
  rw [(setupReceiver_eq_sender hs rnd info psk he hd).1]
  cases H₁.setupSender pkR rnd info psk with
  | error e => simp [Except.map]
  | ok r => simp [Except.map]

/-! ### (f) DHKEM -/

/-- If `dh` commutes for the two key pairs (`dh(skE, pkR) = dh(skR, pkE)`), `decap(enc = pkE)`
returns the shared secret `encap` produced — also across two providers with the same KDF — and
fails exactly when `encap` fails (DH error or KDF error). -/
theorem dhkem_correct (D₁ D₂ : DhKem B) (hops : D₁.ops = D₂.ops) (hkdf : D₁.kdf = D₂.kdf)
    (hid : D₁.kemId = D₂.kemId) (hns : D₁.nSecret = D₂.nSecret) {skE pkE skR pkR : B}
    (hdh : D₁.dh.dh skE pkR = D₂.dh.dh skR pkE) :
    D₂.decap pkE skR pkR = (D₁.encap pkR (some (skE, pkE))).map Prod.fst ∧
    (∀ ss enc, D₁.encap pkR (some (skE, pkE)) = .ok (ss, enc) →
      enc = pkE ∧ D₂.decap enc skR pkR = .ok ss) := by
  have h := DhKem.decap_eq_encap_cross D₁ D₂ hops hkdf hid hns hdh
  refine ⟨h, fun ss enc hok => ?_⟩
  have henc := DhKem.encap_enc D₁ hok
  subst henc
  exact ⟨rfl, by rw [h, hok]; rfl⟩

/-- so the KEM hypothesis of `setup_agree`/`interop` holds for DHKEM -/
theorem dhkem_kem_correct (D₁ D₂ : DhKem B) (a₁ a₂ : Option (Aead B)) (hops : D₁.ops = D₂.ops)
    (hkdf : D₁.kdf = D₂.kdf) (hid : D₁.kemId = D₂.kemId) (hns : D₁.nSecret = D₂.nSecret)
    {skE pkE skR pkR : B} (hdh : D₁.dh.dh skE pkR = D₂.dh.dh skR pkE) {ss enc : B}
    (he : (ofDhKem D₁ a₁).kem.encap pkR (some (skE, pkE)) = some (ss, enc)) :
    (ofDhKem D₂ a₂).kem.decap enc skR pkR = some ss := by
  simp only [ofDhKem, DhKem.toKem] at he ⊢
  cases hr : D₁.encap pkR (some (skE, pkE)) with
  | error e => rw [hr] at he; cases he
  | ok r =>
    obtain ⟨ss', enc'⟩ := r
    rw [hr] at he
    simp only [Except.toOption, Option.some.injEq, Prod.mk.injEq] at he
    obtain ⟨rfl, rfl⟩ := he
    obtain ⟨_, h2⟩ := (dhkem_correct D₁ D₂ hops hkdf hid hns hdh).2 _ _ hr
    rw [h2]; rfl

/-- `kem_context = enc ‖ pkR`, and (encapsulated keys having one length) it determines both -/
theorem kem_context_binds (D : DhKem B) (hO : D.ops.Lawful) (enc enc' pkR pkR' : B) :
    D.kemContext enc pkR = D.ops.cat enc pkR ∧
    (D.ops.size enc = D.ops.size enc' → D.kemContext enc pkR = D.kemContext enc' pkR' →
      enc = enc' ∧ pkR = pkR') :=
  ⟨rfl, DhKem.kemContext_inj D hO⟩

/-- the shared secret is `LabeledExpand(LabeledExtract("", "eae_prk", dh), "shared_secret",
kem_context, Nsecret)` under the suite id `"KEM" ‖ kem_id` -/
theorem dhkem_shared_secret (D : DhKem B) (dhVal enc pkR : B) :
    D.sharedSecret dhVal enc pkR =
      (match labeledExtract D.ops D.kdf (kemSuite D.ops D.kemId) D.ops.empty "eae_prk" dhVal with
       | none => none
       | some prk =>
         labeledExpand D.ops D.kdf (kemSuite D.ops D.kemId) prk "shared_secret"
           (D.ops.cat enc pkR) D.nSecret) :=
  rfl

/-- `generate_deterministic` for the NIST curves returns the first candidate (counter `j ≤ 254`) whose
masked bytes the provider accepts; if the first 255 are refused: `KeyDerivationError`.  Counter 255
is never tried (RFC 9180 §7.1.3 would). -/
theorem dhkem_sampling (D : DhKem B) (prk : B) (mask : UInt8) :
    (∀ j sk pk, j < 255 →
      (∀ k, k < j → ∃ c, D.candidate prk mask k = some c ∧ D.dh.toPublic c = none) →
      D.candidate prk mask j = some sk → D.dh.toPublic sk = some pk →
      D.deriveWithRejectionSampling prk mask = .ok (sk, pk)) ∧
    ((∀ k, k < 255 → ∃ c, D.candidate prk mask k = some c ∧ D.dh.toPublic c = none) →
      D.deriveWithRejectionSampling prk mask = .error .keyDerivationError) := by
  constructor
  · intro j sk pk hj hbad hc hp
    exact DhKem.sampleLoop_first D prk mask 255 0 j sk pk hj
      (by simpa using hbad) (by simpa using hc) hp
  · intro hbad
    exact DhKem.sampleLoop_exhausted D prk mask 255 0 (by simpa using hbad)

/-! ### (g) PSK rules -/

/-- What `hpke.rs` enforces on the psk inputs, completely:
* the mode byte is `0x01` iff a psk is supplied, else `0x00` (`base_mode`);
* the only check (`check_psk`) is `psk.value.len() ≥ 32`, error `InsufficientPskLength`;
* `psk.id` is never inspected: empty id with a psk, or any id, is accepted
  (RFC 9180 §5.1 `VerifyPSKInputs` would reject an empty `psk_id` in psk mode);
* the check is the first step of `key_schedule`, i.e. it runs AFTER `encap`/`decap`: with a failing
  KEM the error is `KemError` even for a short psk. -/
theorem psk_rules (H : Hpke B R) :
    (baseMode (none : Option (Psk B)) = 0 ∧ ∀ p : Psk B, baseMode (some p) = 1) ∧
    (∀ psk, checkPsk H.ops psk = .ok () ↔ ∀ p, psk = some p → 32 ≤ H.ops.size p.value) ∧
    (∀ psk e, checkPsk H.ops psk = .error e → e = .insufficientPskLength) ∧
    (∀ id id' v, checkPsk H.ops (some ⟨id, v⟩) = checkPsk H.ops (some ⟨id', v⟩)) ∧
    (∀ mode ss info p, H.ops.size p.value < 32 →
      H.keySchedule mode ss info (some p) = .error .insufficientPskLength) ∧
    (∀ pkR rnd info p ss enc, H.kem.encap pkR rnd = some (ss, enc) → H.ops.size p.value < 32 →
      H.setupSender pkR rnd info (some p) = .error .insufficientPskLength) ∧
    (∀ enc skR pkR info p ss, H.kem.decap enc skR pkR = some ss → H.ops.size p.value < 32 →
      H.setupReceiver enc skR pkR info (some p) = .error .insufficientPskLength) ∧
    (∀ pkR rnd info psk, H.kem.encap pkR rnd = none →
      H.setupSender pkR rnd info psk = .error .kemError) := by
  refine ⟨⟨rfl, fun _ => rfl⟩, checkPsk_ok_iff H.ops, checkPsk_error H.ops, fun _ _ _ => rfl,
    keySchedule_short_psk H, ?_, ?_, ?_⟩
  · intro pkR rnd info p ss enc he hp
    simp only [Hpke.setupSender, he, keySchedule_short_psk H _ ss info p hp]
  · intro enc skR pkR info p ss hd hp
    simp only [Hpke.setupReceiver, hd, keySchedule_short_psk H _ ss info p hp]
  · intro pkR rnd info psk he
    simp only [Hpke.setupSender, he]

/-! ### Non-vacuity: the toy instance satisfies every hypothesis used above -/

section Examples
open Toy

/-- lawful byte operations, inverse and binding AEAD -/
example : Toy.ops.Lawful ∧ AeadRel AeadInverse Toy.hpke Toy.hpke ∧ AeadRel AeadBinding Toy.hpke Toy.hpke :=
  ⟨ops_lawful, aead_inverse, aead_binding⟩

/-- the toy AEAD does seal something (so inverse/binding are not vacuous) -/
example : Toy.aead.sealF [1, 2] (List.replicate 12 7) (some [9]) [42] =
    some (List.replicate 12 7 ++ [1, 9] ++ [42]) := by decide

/-- commutative DH for the toy key pairs `(sk, pk = sk)` -/
example (skE skR : List UInt8) : Toy.dhKem.dh.dh skE skR = Toy.dhKem.dh.dh skR skE := by
  simp [Toy.dhKem, Toy.dh, zipWith_xor_comm skE skR]

/-- KEM hypothesis of (a) for the toy DHKEM -/
example (skE skR ss enc : List UInt8)
    (he : Toy.hpke.kem.encap skR (some (skE, skE)) = some (ss, enc)) :
    Toy.hpke.kem.decap enc skR skR = some ss :=
  dhkem_kem_correct Toy.dhKem Toy.dhKem _ _ rfl rfl rfl rfl
    (by simp [Toy.dhKem, Toy.dh, zipWith_xor_comm skE skR]) he

/-- `SameSchedule`/`Agree` are reflexive, so (e) applies at least to a provider and itself; two
records that differ only in the AEAD/KEM functions are still `SameSchedule` -/
example : SameSchedule Toy.hpke Toy.hpke ∧ Hpke.Agree Toy.hpke Toy.hpke :=
  ⟨SameSchedule.refl _, ⟨⟨fun _ _ => rfl, fun _ => rfl, fun _ => rfl, fun _ => rfl⟩,
    ⟨rfl, fun _ _ => rfl, fun _ _ _ => rfl, fun _ => rfl⟩,
    ⟨rfl, rfl, fun _ _ => rfl, fun _ _ _ => rfl⟩,
    ⟨rfl, rfl, rfl, fun _ _ _ _ => rfl, fun _ _ _ _ => rfl⟩⟩⟩

/-- a concrete run: base-mode setup succeeds on the toy instance, three messages are sealed, the
counter ends at 3 -/
example :
    ∃ enc cS cts cS' e, Toy.hpke.setupSender [5, 6] (some ([1, 2], [1, 2])) [7] none = .ok (enc, cS) ∧
      sealMany Toy.hpke cS [(none, [10]), (some [3], [11]), (none, [])] = .ok (cts, cS') ∧
      cS'.enc = some e ∧ e.seq = 3 ∧ cts.length = 3 := by
  exact ⟨_, _, _, _, _, rfl, rfl, rfl, rfl, rfl⟩

/-- psk mode: a 32-byte psk with EMPTY id is accepted, a 31-byte psk is `InsufficientPskLength` -/
example :
    (∃ r, Toy.hpke.setupSender [5, 6] (some ([1, 2], [1, 2])) [7]
        (some ⟨[], List.replicate 32 1⟩) = .ok r) ∧
    Toy.hpke.setupSender [5, 6] (some ([1, 2], [1, 2])) [7]
        (some ⟨[8], List.replicate 31 1⟩) = .error .insufficientPskLength := by
  exact ⟨⟨_, rfl⟩, rfl⟩

/-- export-only toy: setup works, `seal` says `ExportOnlyMode`, `export` returns bytes -/
example :
    ∃ enc c out, Toy.hpkeExportOnly.setupSender [5, 6] (some ([1, 2], [1, 2])) [7] none = .ok (enc, c) ∧
      Toy.hpkeExportOnly.sealMsg c none [1] = .error .exportOnlyMode ∧
      Toy.hpkeExportOnly.exportSecret c [9] 5 = .ok out ∧ out.length = 5 := by
  exact ⟨_, _, _, rfl, rfl, rfl, rfl⟩

end Examples

/-! ### The shipped suites -/

/-- The byte-level instance of the driver (`ByteArray`, reference HKDF, MLS suites 1..7) meets the
side conditions of the nonce theorems: lawful byte operations, and every context the key schedule
produces has a 12-byte base nonce (`Nn = 12 ≥ 8`). -/
theorem shipped_suites_side_conditions (n : Nat) (p : Bytes.SuiteParams) (h : Bytes.suite? n = some p) :
    (Bytes.hpke p).ops.Lawful ∧
    ∀ mode ss info psk c e, (Bytes.hpke p).keySchedule mode ss info psk = .ok c → c.enc = some e →
      8 ≤ ((Bytes.hpke p).ops.bytes e.baseNonce).length := by
  refine ⟨Bytes.ops_lawful, fun mode ss info psk c e hk he => ?_⟩
  have := Bytes.shipped_nonce_len n p h hk he
  show 8 ≤ (Bytes.ops.bytes e.baseNonce).length
  omega

/-! ### X.509 reference verdict -/

section X509
open MlsVerif.X509

/-- For a chain that is structurally accepted (verdict without time check) under the single anchor
`a`, which is not itself the last chain element: the accepted times are exactly the intersection of
the validity intervals of every chain element and of the anchor. -/
theorem verdict_time_window (chain : List Cert) (a : Cert) (t : Nat)
    (hstruct : verdict chain [a] none = true) (hout : chain.getLast? ≠ some a) :
    verdict chain [a] (some t) = true ↔
      ∀ c, c ∈ chain ++ [a] → c.notBefore ≤ t ∧ t ≤ c.notAfter := by
  rw [verdict_iff] at hstruct ⊢
  obtain ⟨last, h1, _, h3, h4⟩ := hstruct
  rw [anchored_iff] at h4
  obtain ⟨a', ha', h4⟩ := h4
  simp only [List.mem_singleton] at ha'
  subst ha'
  have hne : a' ≠ last := fun h => hout (h ▸ h1)
  rcases h4 with ⟨h, _⟩ | ⟨h5, h6, _⟩
  · exact absurd h hne
  constructor
  · rintro ⟨last', h1', h2', _, h4'⟩ c hc
    rw [h1] at h1'; cases h1'
    rw [anchored_iff] at h4'
    obtain ⟨a'', ha'', h4'⟩ := h4'
    simp only [List.mem_singleton] at ha''
    subst ha''
    rcases List.mem_append.mp hc with hc | hc
    · exact (timeOk_some t c).mp (h2' c hc)
    · simp only [List.mem_singleton] at hc
      subst hc
      rcases h4' with ⟨h, _⟩ | ⟨_, _, h7⟩
      · exact absurd h hne
      · exact (timeOk_some t _).mp h7
  · intro hall
    refine ⟨last, h1, fun c hc => (timeOk_some t c).mpr (hall c (List.mem_append.mpr (Or.inl hc))),
      h3, ?_⟩
    rw [anchored_iff]
    exact ⟨a', by simp, Or.inr ⟨h5, h6, (timeOk_some t a').mpr (hall a' (by simp))⟩⟩

/-- the same when the chain ends in the anchor itself: the anchor's interval is already among the
chain's -/
theorem verdict_time_window_root_in_chain (chain : List Cert) (a : Cert) (t : Nat)
    (hstruct : verdict chain [a] none = true) (hin : chain.getLast? = some a) :
    verdict chain [a] (some t) = true ↔ ∀ c, c ∈ chain → c.notBefore ≤ t ∧ t ≤ c.notAfter := by
  rw [verdict_iff] at hstruct ⊢
  obtain ⟨last, h1, _, h3, h4⟩ := hstruct
  rw [hin] at h1
  simp only [Option.some.injEq] at h1
  subst h1
  have hmem : a ∈ chain := List.mem_of_getLast? hin
  constructor
  · rintro ⟨_, _, h2', _, _⟩ c hc
    exact (timeOk_some t c).mp (h2' c hc)
  · intro hall
    refine ⟨a, hin, fun c hc => (timeOk_some t c).mpr (hall c hc), h3, ?_⟩
    rw [anchored_iff] at h4 ⊢
    obtain ⟨a', ha', h4⟩ := h4
    simp only [List.mem_singleton] at ha'
    subst ha'
    rcases h4 with h | ⟨h5, h6, _⟩
    · exact ⟨a', by simp, Or.inl h⟩
    · exact ⟨a', by simp, Or.inr ⟨h5, h6, (timeOk_some t a').mpr (hall a' hmem)⟩⟩

/-- general form (any anchor list): a time is accepted iff the structure is and the time lies in
every chain interval and some vouching anchor is either the last element or valid at that time;
and no time check (`none`) accepts whenever some time does -/
theorem verdict_time_general (chain anchors : List Cert) (t : Nat) :
    (verdict chain anchors (some t) = true ↔
      ∃ last, chain.getLast? = some last ∧ linksOk chain 0 = true ∧
        (∀ c, c ∈ chain → c.notBefore ≤ t ∧ t ≤ c.notAfter) ∧
        ∃ a, a ∈ anchors ∧ ((a = last ∧ caOk a (chain.length - 1 - 1) = true) ∨
          (issues a last = true ∧ caOk a (chain.length - 1) = true ∧
            a.notBefore ≤ t ∧ t ≤ a.notAfter))) ∧
    (verdict chain anchors (some t) = true → verdict chain anchors none = true) := by
  refine ⟨?_, verdict_none_of_some chain anchors (some t)⟩
  rw [verdict_iff]
  constructor
  · rintro ⟨last, h1, h2, h3, h4⟩
    rw [anchored_iff] at h4
    obtain ⟨a, ha, h4⟩ := h4
    refine ⟨last, h1, h3, fun c hc => (timeOk_some t c).mp (h2 c hc), a, ha, ?_⟩
    rcases h4 with h | ⟨h5, h6, h7⟩
    · exact Or.inl h
    · exact Or.inr ⟨h5, h6, (timeOk_some t a).mp h7⟩
  · rintro ⟨last, h1, h3, h2, a, ha, h4⟩
    refine ⟨last, h1, fun c hc => (timeOk_some t c).mpr (h2 c hc), h3, ?_⟩
    rw [anchored_iff]
    refine ⟨a, ha, ?_⟩
    rcases h4 with h | ⟨h5, h6, h7⟩
    · exact Or.inl h
    · exact Or.inr ⟨h5, h6, (timeOk_some t a).mpr h7⟩

/-- every listed malformation rejects -/
theorem verdict_reject_cases (anchors : List Cert) (t : Option Nat) :
    -- empty chain
    verdict [] anchors t = false ∧
    -- some certificate not valid at the given time (expired / not yet valid), wherever it sits
    (∀ chain c τ, c ∈ chain → ¬ (c.notBefore ≤ τ ∧ τ ≤ c.notAfter) →
      verdict chain anchors (some τ) = false) ∧
    -- an adjacent pair that does not link: wrong signer key or issuer name ≠ next subject; this is
    -- what a missing or a reordered intermediate produces
    (∀ pre c d post, issues d c = false → verdict (pre ++ c :: d :: post) anchors t = false) ∧
    -- an issuer inside the chain that is not a CA
    (∀ pre c d post, d.isCA = false → verdict (pre ++ c :: d :: post) anchors t = false) ∧
    -- an issuer inside the chain whose pathLen is exceeded
    (∀ pre c d post n, d.pathLen = some n → n < pre.length →
      verdict (pre ++ c :: d :: post) anchors t = false) ∧
    -- unknown root: the last element is no anchor and no anchor issued it
    (∀ pre last, (∀ a, a ∈ anchors → a ≠ last ∧ issues a last = false) →
      verdict (pre ++ [last]) anchors t = false) ∧
    -- no anchor is a CA
    (∀ chain, (∀ a, a ∈ anchors → a.isCA = false) → verdict chain anchors t = false) ∧
    -- the issuing anchors are all outside their validity at the given time
    (∀ pre last, (∀ a, a ∈ anchors → a ≠ last ∧ timeOk t a = false) →
      verdict (pre ++ [last]) anchors t = false) := by
  refine ⟨rfl, ?_, ?_, ?_, ?_, ?_, ?_, ?_⟩
  · intro chain c τ hc hbad
    apply Bool.eq_false_iff.mpr
    intro h
    obtain ⟨_, _, h2, _, _⟩ := (verdict_iff _ _ _).mp h
    exact hbad ((timeOk_some τ c).mp (h2 c hc))
  · intro pre c d post hbad
    apply Bool.eq_false_iff.mpr
    intro h
    obtain ⟨_, _, _, h3, _⟩ := (verdict_iff _ _ _).mp h
    have := (linksOk_pair pre c d post 0 h3).1
    rw [hbad] at this; cases this
  · intro pre c d post hbad
    apply Bool.eq_false_iff.mpr
    intro h
    obtain ⟨_, _, _, h3, _⟩ := (verdict_iff _ _ _).mp h
    have := (linksOk_pair pre c d post 0 h3).2
    simp [caOk, hbad] at this
  · intro pre c d post n hn hlt
    apply Bool.eq_false_iff.mpr
    intro h
    obtain ⟨_, _, _, h3, _⟩ := (verdict_iff _ _ _).mp h
    have := (linksOk_pair pre c d post 0 h3).2
    simp only [caOk, hn, Nat.zero_add, Bool.and_eq_true, decide_eq_true_eq] at this
    omega
  · intro pre last hno
    apply Bool.eq_false_iff.mpr
    intro h
    obtain ⟨_, _, h4⟩ := (verdict_snoc_iff _ _ _ _).mp h
    obtain ⟨a, ha, h4⟩ := (anchored_iff _ _ _ _).mp h4
    obtain ⟨h1, h2⟩ := hno a ha
    rcases h4 with ⟨h, _⟩ | ⟨h, _, _⟩
    · exact h1 h
    · rw [h2] at h; cases h
  · intro chain hno
    apply Bool.eq_false_iff.mpr
    intro h
    obtain ⟨_, _, _, _, h4⟩ := (verdict_iff _ _ _).mp h
    obtain ⟨a, ha, h4⟩ := (anchored_iff _ _ _ _).mp h4
    have hca := hno a ha
    rcases h4 with ⟨_, h⟩ | ⟨_, h, _⟩ <;> simp [caOk, hca] at h
  · intro pre last hno
    apply Bool.eq_false_iff.mpr
    intro h
    obtain ⟨_, _, h4⟩ := (verdict_snoc_iff _ _ _ _).mp h
    obtain ⟨a, ha, h4⟩ := (anchored_iff _ _ _ _).mp h4
    obtain ⟨h1, h2⟩ := hno a ha
    rcases h4 with ⟨h, _⟩ | ⟨_, _, h⟩
    · exact h1 h
    · rw [h2] at h; cases h

/-- adding anchors never turns accept into reject -/
theorem verdict_anchor_monotone (chain anchors anchors' : List Cert) (t : Option Nat)
    (hsub : ∀ a, a ∈ anchors → a ∈ anchors') (h : verdict chain anchors t = true) :
    verdict chain anchors' t = true := by
  rw [verdict_iff] at h ⊢
  obtain ⟨last, h1, h2, h3, h4⟩ := h
  exact ⟨last, h1, h2, h3, anchored_mono hsub h4⟩

/-- trust does not depend on the certificates after an anchor match: if the whole chain is accepted
and an anchor already vouches for the element `c` at position `pre.length`, the prefix ending in `c`
is accepted on its own -/
theorem verdict_prefix (pre : List Cert) (c : Cert) (post anchors : List Cert) (t : Option Nat)
    (h : verdict (pre ++ c :: post) anchors t = true)
    (hc : anchored anchors t c pre.length = true) :
    verdict (pre ++ [c]) anchors t = true := by
  rw [verdict_snoc_iff]
  obtain ⟨_, _, h2, h3, _⟩ := (verdict_iff _ _ _).mp h
  refine ⟨fun x hx => h2 x ?_, linksOk_prefix pre c post 0 h3, hc⟩
  rcases List.mem_append.mp hx with hx | hx
  · exact List.mem_append.mpr (Or.inl hx)
  · simp only [List.mem_singleton] at hx
    subst hx
    exact List.mem_append.mpr (Or.inr (by simp))

/-- the walk reading accepts exactly the chains with an accepted non-empty prefix; in particular it
accepts whatever `verdict` accepts, and ignores everything after the first match -/
theorem verdictWalk_iff_prefix (chain anchors : List Cert) (t : Option Nat) :
    (verdictWalk chain anchors t = true ↔
      ∃ pre c post, chain = pre ++ c :: post ∧ verdict (pre ++ [c]) anchors t = true) ∧
    (verdict chain anchors t = true → verdictWalk chain anchors t = true) ∧
    (∀ junk, verdictWalk chain anchors t = true → verdictWalk (chain ++ junk) anchors t = true) := by
  have key : verdictWalk chain anchors t = true ↔
      ∃ pre c post, chain = pre ++ c :: post ∧ verdict (pre ++ [c]) anchors t = true := by
    unfold verdictWalk
    rw [walk_iff]
    constructor
    · rintro ⟨pre, c, post, he, ht, hl, ha⟩
      exact ⟨pre, c, post, he, (verdict_snoc_iff _ _ _ _).mpr ⟨ht, hl, by simpa using ha⟩⟩
    · rintro ⟨pre, c, post, he, hv⟩
      obtain ⟨ht, hl, ha⟩ := (verdict_snoc_iff _ _ _ _).mp hv
      exact ⟨pre, c, post, he, ht, hl, by simpa using ha⟩
  refine ⟨key, ?_, ?_⟩
  · intro hv
    obtain ⟨last, h1, _⟩ := (verdict_iff _ _ _).mp hv
    obtain ⟨pre, hpre⟩ : ∃ pre, chain = pre ++ [last] := by
      have hne : chain ≠ [] := by intro h0; rw [h0] at h1; cases h1
      refine ⟨chain.dropLast, ?_⟩
      have h5 := List.getLast?_eq_some_getLast hne
      rw [h1] at h5; cases h5
      exact (List.dropLast_concat_getLast hne).symm
    exact key.mpr ⟨pre, last, [], hpre, hpre ▸ hv⟩
  · intro junk hw
    obtain ⟨pre, c, post, he, hv⟩ := key.mp hw
    unfold verdictWalk at *
    rw [walk_iff]
    obtain ⟨ht, hl, ha⟩ := (verdict_snoc_iff _ _ _ _).mp hv
    exact ⟨pre, c, post ++ junk, by rw [he]; simp, ht, hl, by simpa using ha⟩

/-! non-vacuity -/

/-- root (self-signed CA, pathLen 1), intermediate (CA, pathLen 0), leaf -/
def exRoot : Cert := ⟨1, 1, 101, 101, 10, 100, true, some 1⟩
def exInter : Cert := ⟨2, 1, 102, 101, 20, 90, true, some 0⟩
def exLeaf : Cert := ⟨3, 2, 103, 102, 30, 80, false, none⟩
/-- a second intermediate below `exInter` (which has pathLen 0) -/
def exInter2 : Cert := ⟨4, 2, 104, 102, 20, 90, true, none⟩
def exLeaf2 : Cert := ⟨5, 4, 105, 104, 30, 80, false, none⟩

/-- a 3-element chain is accepted (with and without the root in the chain, with and without time) -/
example : verdict [exLeaf, exInter, exRoot] [exRoot] (some 50) = true := by decide
example : verdict [exLeaf, exInter] [exRoot] (some 50) = true := by decide
example : verdict [exLeaf, exInter, exRoot] [exRoot] none = true := by decide
/-- the window is [30, 80] = the intersection of the four intervals -/
example : verdict [exLeaf, exInter] [exRoot] (some 30) = true ∧
    verdict [exLeaf, exInter] [exRoot] (some 80) = true ∧
    verdict [exLeaf, exInter] [exRoot] (some 29) = false ∧
    verdict [exLeaf, exInter] [exRoot] (some 81) = false := by decide
/-- reordered, missing intermediate, unknown root, pathLen violation, junk after the anchor -/
example : verdict [exLeaf, exRoot, exInter] [exRoot] (some 50) = false := by decide
example : verdict [exLeaf] [exRoot] (some 50) = false := by decide
example : verdict [exLeaf, exInter, exRoot] [exInter2] (some 50) = false := by decide
example : verdict [exLeaf2, exInter2, exInter] [exRoot] (some 50) = false := by decide
example : verdict [exLeaf, exInter, exRoot, exLeaf2] [exRoot] (some 50) = false ∧
    verdictWalk [exLeaf, exInter, exRoot, exLeaf2] [exRoot] (some 50) = true := by decide
/-- hypotheses of `verdict_time_window` are satisfiable -/
example : verdict [exLeaf, exInter] [exRoot] none = true ∧
    [exLeaf, exInter].getLast? ≠ some exRoot := by decide

end X509

end MlsVerif.Props.C14
