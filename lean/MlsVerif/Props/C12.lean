/-
C12 — wire codec (`mls-rs-codec`, `mls-rs-codec-derive`).

"For every value, encoding then decoding returns the same value and consumes exactly the bytes
written; the reported encoded length (mls_encoded_len) equals the number of bytes written.  Decoding
any byte string either fails with an error or yields a value that re-encodes to exactly the bytes
consumed; it never panics, never loops and never allocates memory beyond a fixed multiple of the
input size.  Variable-length integers are accepted only in their shortest form and length prefixes
never reach beyond the input."

All statements quantify over every schema, value and byte string; no bounds.

Totality / no panic / no loop.  `Codec.encode`, `Codec.size`, `Codec.decode` are total Lean
functions defined without `partial`, `unsafe` or fuel: `decode` is structurally recursive on the
schema and its element loops recurse on the length of the remaining input, which strictly decreases
because of the zero-progress guard (`vec.rs:61`, `map.rs:51`, `map.rs:95`).  The only `panic!` in
the Rust codec (`count_bytes_to_encode_int`, `varint.rs:110`) is the `none` result of
`countBytes?`; `varint_no_panic` shows no call site can reach it.

Two parts of the property are false as stated and are replaced by the precise statements:

* `roundtrip` needs `Progress s` (no zero-length element type inside a `vec`/`map`);
  `roundtrip_fails_without_progress` gives the counter-witness `Vec<[u8; 0]>`.
* `canonical` ("re-encodes to exactly the bytes consumed") needs `Canon s` (no `bool`, no `map`);
  `noncanonical_bool_witness` and `noncanonical_map_witness` give the counter-witnesses.
-/
import MlsVerif.Proofs.CodecDec
import MlsVerif.Proofs.CodecErr

namespace MlsVerif.Props.C12
open MlsVerif.Codec

/-! ## Encode then decode -/

/-- Encoding then decoding returns the same value and consumes exactly the bytes written (the
remainder `r` is returned untouched). -/
theorem roundtrip (s : Schema) (v : Value) (b r : Bytes) :
    Progress s = true → WF s v = true → encode s v = .ok b → decode s (b ++ r) = .ok (v, r) :=
  fun hp hw he => (encSpec_all s v b hw he).2 hp r

/-- Counter-witness to `roundtrip` without `Progress`: `vec![[0u8; 0]; 1]` is encoded as the single
byte `00` and decoded as the empty vector. -/
theorem roundtrip_fails_without_progress :
    WF (.vec (.fixed 0)) (.list [.bytes []]) = true ∧
    encode (.vec (.fixed 0)) (.list [.bytes []]) = .ok [0] ∧
    decode (.vec (.fixed 0)) ([0] ++ []) = .ok (.list [], []) := by
  refine ⟨by decide, rfl, ?_⟩
  have h : decodeLoop (decode (.fixed 0)) [] = .ok [] := by rw [decodeLoop]; rfl
  rw [decode]
  simp [decodeCollection, decodeSplit, decodeVarint, readVarint, countBytes?, splitN, h]

/-- Same phenomenon for maps: one entry with zero-length key and value. -/
theorem roundtrip_fails_without_progress_map :
    WF (.map (.fixed 0) (.struct [])) (.map [(.bytes [], .tuple [])]) = true ∧
    encode (.map (.fixed 0) (.struct [])) (.map [(.bytes [], .tuple [])]) = .ok [0] ∧
    decode (.map (.fixed 0) (.struct [])) ([0] ++ []) = .ok (.map [], []) := by
  refine ⟨by decide, rfl, ?_⟩
  have h : decodeMapLoop (decodePair (decode (.fixed 0)) (decode (.struct []))) [] [] = .ok [] := by
    rw [decodeMapLoop]; rfl
  rw [decode]
  simp [decodeCollection, decodeSplit, decodeVarint, readVarint, countBytes?, splitN, h]

/-- `mls_encoded_len` equals the number of bytes written. -/
theorem size_exact (s : Schema) (v : Value) (b : Bytes) :
    WF s v = true → encode s v = .ok b → size s v = b.length :=
  fun hw he => (encSpec_all s v b hw he).1

/-- A well-typed value fails to encode exactly when some contained length-prefixed payload is
longer than `VarInt::MAX = 2^30 - 1`, and the error then is `VarIntOutOfRange`. -/
theorem encode_err_iff (s : Schema) (v : Value) (hw : WF s v = true) :
    (∀ e, encode s v = .error e ↔ (e = .varIntOutOfRange ∧ tooBig s v = true)) ∧
    ((∃ b, encode s v = .ok b) ↔ tooBig s v = false) := by
  have ht := encTotal_all s v hw
  constructor
  · intro e
    constructor
    · exact encode_err_kind hw
    · rintro ⟨rfl, h⟩; exact ht.1 h
  · constructor
    · rintro ⟨b, hb⟩
      cases h : tooBig s v with
      | false => rfl
      | true => rw [ht.1 h] at hb; cases hb
    · exact ht.2

/-- `illTyped` is only ever returned for values outside the schema. -/
theorem encode_illTyped (s : Schema) (v : Value) :
    encode s v = .error .illTyped → WF s v = false := by
  intro he
  cases hw : WF s v with
  | false => rfl
  | true => have := (encode_err_kind hw he).1; cases this

/-- The header length computed by `mls_encoded_len` is wrong (1 instead of an error) when the
payload exceeds `VarInt::MAX`; this is harmless because `mls_encode` fails in exactly that case. -/
theorem size_quirk_harmless (s : Schema) (v : Value) (hw : WF s v = true) :
    (∃ b, encode s v = .ok b ∧ size s v = b.length) ∨ encode s v = .error .varIntOutOfRange := by
  have ht := encTotal_all s v hw
  cases h : tooBig s v with
  | true => exact .inr (ht.1 h)
  | false =>
    obtain ⟨b, hb⟩ := ht.2 h
    exact .inl ⟨b, hb, size_exact s v b hw hb⟩

/-- With feature `preallocate` (`iter.rs:20-39`) the header is derived from `mls_encoded_len` before
the elements are written; the result is the same. -/
theorem encodeP_eq_encode (s : Schema) (v : Value) : WF s v = true → encodeP s v = encode s v :=
  encPSpec_all s v

/-! ## Decode -/

/-- Whatever the decoder accepts is a well-typed value (integers in range, arrays of the right
length, UTF-8 strings, known discriminants, maps without duplicate keys). -/
theorem decode_wf (s : Schema) (b : Bytes) (v : Value) (r : Bytes) :
    decode s b = .ok (v, r) → WF s v = true :=
  fun h => (decSpec_all s b v r h).1

/-- The remainder is a suffix of the input. -/
theorem decode_consumes_prefix (s : Schema) (b : Bytes) (v : Value) (r : Bytes) :
    decode s b = .ok (v, r) → ∃ c, b = c ++ r := by
  intro h
  obtain ⟨_, c, hc, _⟩ := decSpec_all s b v r h
  exact ⟨c, hc⟩

theorem decode_length_le (s : Schema) (b : Bytes) (v : Value) (r : Bytes) :
    decode s b = .ok (v, r) → r.length ≤ b.length := by
  intro h
  obtain ⟨c, hc⟩ := decode_consumes_prefix s b v r h
  rw [hc, List.length_append]; omega

/-- Progress: a schema without zero-length encodings consumes at least one byte. -/
theorem decode_progress (s : Schema) (b : Bytes) (v : Value) (r : Bytes) :
    nonEmpty s = true → decode s b = .ok (v, r) → r.length < b.length := by
  intro hn h
  obtain ⟨_, c, hc, _, _, hpos⟩ := decSpec_all s b v r h
  have := hpos hn
  rw [hc, List.length_append]; omega

/-- The model's loop guard `rest.length < data.length` is the Rust guard `data.len() != before`:
for every element decoder of the model the remainder is never longer than the input. -/
theorem guard_faithful (s : Schema) (d : Bytes) (v : Value) (r : Bytes) :
    decode s d = .ok (v, r) → (¬ r.length < d.length ↔ r.length = d.length) := by
  intro h
  have := decode_length_le s d v r h
  omega

theorem guard_faithful_pair (k v : Schema) (d : Bytes) (kv : Value × Value) (r : Bytes) :
    decodePair (decode k) (decode v) d = .ok (kv, r) →
    (¬ r.length < d.length ↔ r.length = d.length) := by
  intro h
  obtain ⟨_, _, c, hc, _⟩ := decodePair_spec (decSpec_all k) (decSpec_all v) h
  have : d.length = c.length + r.length := by rw [hc, List.length_append]
  omega

/-- For schemas without `bool` and `map`, a decoded value re-encodes to exactly the bytes
consumed. -/
theorem canonical (s : Schema) (b : Bytes) (v : Value) (r : Bytes) :
    Canon s = true → decode s b = .ok (v, r) → ∃ c, encode s v = .ok c ∧ b = c ++ r := by
  intro hc h
  obtain ⟨_, c, hb, _, he, _⟩ := decSpec_all s b v r h
  exact ⟨c, he hc, hb⟩

/-- `bool.rs:22` (`i != 0`): the byte `02` decodes to `true`, which re-encodes as `01`. -/
theorem noncanonical_bool_witness :
    decode .bool [2] = .ok (.bool true, []) ∧ encode .bool (.bool true) = .ok [1] := by
  constructor <;> rfl

/-- `map.rs:43-57`: entries are accepted in any order; `{2:0, 1:0}` sent as `04 02 00 01 00`
decodes to the map that re-encodes as `04 01 00 02 00`. -/
theorem noncanonical_map_witness :
    decode (.map (.u 1) (.u 1)) [4, 2, 0, 1, 0]
      = .ok (.map [(.nat 1, .nat 0), (.nat 2, .nat 0)], []) ∧
    encode (.map (.u 1) (.u 1)) (.map [(.nat 1, .nat 0), (.nat 2, .nat 0)])
      = .ok [4, 1, 0, 2, 0] := by
  refine ⟨?_, rfl⟩
  have hl : LoopRel (decodePair (decode (.u 1)) (decode (.u 1))) [2, 0, 1, 0]
      [(.nat 2, .nat 0), (.nat 1, .nat 0)] :=
    .cons (rest := [1, 0]) (by simp) rfl (by simp)
      (.cons (rest := []) (by simp) rfl (by simp) .nil)
  have hm := decodeMapLoop_of_rel hl [] [(.nat 1, .nat 0), (.nat 2, .nat 0)] rfl
  rw [decode]
  simp [decodeCollection, decodeSplit, decodeVarint, readVarint, countBytes?, splitN, hm]

/-- For every schema (canonical or not) re-encoding a decoded value and decoding again is stable. -/
theorem decode_reencode_stable (s : Schema) (b : Bytes) (v : Value) (r c : Bytes) :
    Progress s = true → decode s b = .ok (v, r) → encode s v = .ok c →
    decode s (c ++ r) = .ok (v, r) :=
  fun hp h he => roundtrip s v c r hp (decode_wf s b v r h) he

/-! ## VarInt -/

theorem varint_roundtrip (n : Nat) (r : Bytes) :
    n ≤ varintMax → decodeVarint (encodeVarint n ++ r) = .ok (n, r) :=
  decodeVarint_encodeVarint n r

/-- Decoding succeeds only on `encodeVarint n`, the unique accepted representation of `n`. -/
theorem varint_unique (b r : Bytes) (n : Nat) :
    decodeVarint b = .ok (n, r) → n ≤ varintMax ∧ b = encodeVarint n ++ r :=
  decodeVarint_ok

/-- `encodeVarint n` is the shortest of the three forms (1, 2, 4 bytes carrying 6, 14, 30 bits) that
can hold `n`; a syntactically well-formed varint of any other length is rejected with
`VarIntMinimumLengthEncoding`. -/
theorem varint_minimal (b r : Bytes) (count n : Nat) (h : readVarint b = .ok (count, n, r)) :
    (count = (encodeVarint n).length ∧ decodeVarint b = .ok (n, r)) ∨
    ((encodeVarint n).length < count ∧ decodeVarint b = .error .varIntMinimumLengthEncoding) := by
  have hle := readVarint_le h
  have hcount : count = 1 ∧ n < 64 ∨ count = 2 ∧ n < 16384 ∨ count = 4 := by
    unfold readVarint at h
    split at h
    · cases h
    · rename_i first rest
      have hf := first.toNat_lt
      split at h
      · injection h with h; injection h with h1 h; injection h with h2 _; left; omega
      · split at h
        · split at h
          · rename_i b1 _
            have := b1.toNat_lt
            injection h with h; injection h with h1 h; injection h with h2 _; right; left; omega
          · cases h
        · split at h
          · split at h
            · injection h with h; injection h with h1 _; right; right; omega
            · cases h
          · cases h
  unfold varintMax at hle
  simp only [decodeVarint, h, countBytes?, encodeVarint]
  rcases hcount with ⟨rfl, hn⟩ | ⟨rfl, hn⟩ | rfl
  · simp [hn]
  · by_cases h1 : n < 64
    · simp [h1]
    · simp [h1, hn]
  · by_cases h1 : n < 64
    · simp [h1]
    · by_cases h2 : n < 16384
      · simp [h1, h2]
      · have : n < 1073741824 := by omega
        simp [h1, h2, this]

/-- No call of `count_bytes_to_encode_int` can hit its `panic!` arm:
(1) in `VarInt::mls_decode` the argument assembled from the input is at most `VarInt::MAX`;
(2) in `mls_encoded_len` the argument is `try_from(len).unwrap_or_default()`;
(3) in `mls_encode` the argument passed `VarInt::try_from(len)?`;
(4) a `VarInt` value itself (schema `varint`) is `≤ VarInt::MAX` by its type invariant (`WF`). -/
theorem varint_no_panic :
    (∀ n, n ≤ varintMax → (countBytes? n).isSome = true) ∧
    (∀ b c n r, readVarint b = .ok (c, n, r) → n ≤ varintMax) ∧
    (∀ len, (if len ≤ varintMax then len else 0) ≤ varintMax) ∧
    (∀ len h, encodeLen len = .ok h → len ≤ varintMax) ∧
    (∀ v, WF .varint v = true → ∃ n, v = .nat n ∧ n ≤ varintMax) := by
  refine ⟨fun n h => countBytes?_isSome h, fun b c n r h => readVarint_le h, ?_, ?_, ?_⟩
  · intro len; split <;> simp_all [varintMax]
  · intro len h he; exact (encodeLen_ok he).1
  · intro v hv; exact WF_varint hv

/-! ## Length prefixes -/

/-- A length prefix larger than the remaining input yields `UnexpectedEOF`, never a value
(`iter.rs:79`). -/
theorem prefix_in_bounds (b r : Bytes) (len : Nat) :
    decodeVarint b = .ok (len, r) → r.length < len → decodeSplit b = .error .unexpectedEOF := by
  intro h hlt
  have : ¬ len ≤ r.length := by omega
  simp [decodeSplit, h, splitN, this]

/-- Consequently every length-prefixed schema node fails on such input. -/
theorem prefix_in_bounds_nodes (b r : Bytes) (len : Nat) (e k v : Schema)
    (h : decodeVarint b = .ok (len, r)) (hlt : r.length < len) :
    decode .bytes b = .error .unexpectedEOF ∧ decode .str b = .error .unexpectedEOF ∧
    decode (.vec e) b = .error .unexpectedEOF ∧ decode (.map k v) b = .error .unexpectedEOF := by
  have := prefix_in_bounds b r len h hlt
  simp [decode, decodeCollection, this]

/-- A successfully split payload lies entirely inside the input. -/
theorem prefix_within_input (b data r : Bytes) :
    decodeSplit b = .ok (data, r) → data.length + r.length < b.length := by
  intro h
  obtain ⟨_, hb⟩ := decodeSplit_ok h
  have := encodeVarint_length_pos data.length
  rw [hb, List.length_append, List.length_append]; omega

/-! ## Allocation -/

/-- The decoded value is never heavier than a schema constant times the number of bytes consumed
(plus that constant): no allocation is driven by a length field that is not backed by input bytes.
The zero-progress guard is what makes this hold for `vec`/`map` of zero-length elements. -/
theorem alloc_bound (s : Schema) (b : Bytes) (v : Value) (r : Bytes) :
    decode s b = .ok (v, r) → weight v ≤ K s * (b.length - r.length) + K s := by
  intro h
  obtain ⟨_, c, hc, hw, _⟩ := decSpec_all s b v r h
  have : b.length - r.length = c.length := by rw [hc, List.length_append]; omega
  rw [this]; exact hw

/-! ## Non-vacuity -/

/-- a struct with a u16, a vector of options of enums (unit variant 1, payload variant 2 carrying a
byte string), and a map from bytes to u8 -/
def exSchema : Schema :=
  .struct [.u 2, .vec (.opt (.enum 1 [(1, none), (2, some .bytes)])), .map .bytes (.u 1)]

def exValue : Value :=
  .tuple [.nat 513,
    .list [.some (.variant 2 (some (.bytes [7, 8]))), .none, .some (.variant 1 none)],
    .map [(.bytes [1], .nat 9), (.bytes [1, 0], .nat 3)]]

def exBytes : Bytes := [2, 1, 8, 1, 2, 2, 7, 8, 0, 1, 1, 7, 1, 1, 9, 2, 1, 0, 3]

example : Progress exSchema = true := by decide
example : WF exSchema exValue = true := by decide
example : encode exSchema exValue = .ok exBytes := rfl
example : size exSchema exValue = 19 := by decide
example : decode exSchema (exBytes ++ [0xff]) = .ok (exValue, [0xff]) :=
  roundtrip exSchema exValue exBytes [0xff] (by decide) (by decide) rfl
example : Canon (.struct [.u 2, .vec (.opt (.enum 1 [(1, none), (2, some .bytes)]))]) = true := by
  decide
example : Canon exSchema = false := by decide
example : tooBig exSchema exValue = false := by decide
/-- the two-byte form of 5 is rejected, the one-byte form accepted -/
example : decodeVarint [0x40, 0x05] = .error .varIntMinimumLengthEncoding := by
  simp [decodeVarint, readVarint, countBytes?]
example : decodeVarint [0x05] = .ok (5, []) := rfl
example : decodeVarint [0xc0] = .error (.invalidVarIntPrefix 3) := rfl
/-- a length prefix of 5 with only 2 bytes left -/
example : decode .bytes [5, 1, 2] = .error .unexpectedEOF := rfl
example : decode (.opt (.u 1)) [2, 0] = .error (.optionOutOfRange 2) := rfl
example : decode (.enum 1 [(1, none)]) [3] = .error .unsupportedEnumDiscriminant := rfl

/-! ### Test vectors of the Rust unit tests (`mls-rs-codec/src/*.rs`, `#[cfg(test)]`) -/

example : encode (.vec (.u 1)) (.list [.nat 1, .nat 2, .nat 3]) = .ok [3, 1, 2, 3] := rfl
example : encode (.u 2) (.nat 1024) = .ok [4, 0] := rfl
example : encode (.u 4) (.nat 1000000) = .ok [0, 15, 66, 64] := rfl
example : encode (.u 8) (.nat 100000000000) = .ok [0, 0, 0, 23, 72, 118, 232, 0] := rfl
example : encode (.opt (.u 1)) (.some (.nat 2)) = .ok [1, 2] := rfl
example : encode (.opt (.u 1)) .none = .ok [0] := rfl
example : encode .str (.bytes [0x62, 0x61, 0x72]) = .ok [3, 0x62, 0x61, 0x72] := rfl
example : decode .str [0x02, 0xdf, 0xff] = .error .utf8 := rfl
example : decode (.fixed 5) [0, 1, 2] = .error .unexpectedEOF := rfl
/-- RFC 9420 §2.1.2 examples: `0x25 ↦ 37`, `0x7bbd ↦ 15293`, `0x9d7f3e7d ↦ 494878333` -/
example : decodeVarint [0x25] = .ok (37, []) := by simp [decodeVarint, readVarint, countBytes?]
example : decodeVarint [0x7b, 0xbd] = .ok (15293, []) := by
  simp [decodeVarint, readVarint, countBytes?]
example : decodeVarint [0x9d, 0x7f, 0x3e, 0x7d] = .ok (494878333, []) := by
  simp [decodeVarint, readVarint, countBytes?]
example : encodeVarint 494878333 = [0x9d, 0x7f, 0x3e, 0x7d] := by decide

end MlsVerif.Props.C12
