import MlsVerif.Proofs.Tree
/-
C08: reachable ratchet trees are well-formed.

Model: `Model/Tree.lean` (validated against mls-rs by the differential harness).  Invariants
(`Proofs/Tree/Defs.lean`, all decidable):
  * `ShapeInv t` = `PreShape t` (leaves only at even, parents only at odd indices, length 0 or odd)
    ∧ `NoTrail t` (no trailing blank);
  * `UniqInv t`: key stamps (parent keys and leaf HPKE keys) are unique in the tree; identities and
    signature keys are pairwise distinct over the leaves;
  * `UnmergedInv t`: every unmerged list is strictly sorted, lists only non-blank leaves below the
    node, and a leaf unmerged at `p` is unmerged at every non-blank parent between it and `p`;
  * `NonEmptyInv t`: a non-blank parent has a non-empty resolution on both sides (needed: it is
    what makes `trim` leave an odd length, and what makes filtered path nodes blank);
  * `WF t` = all four.
Only statements live here; the proofs are in `Proofs/Tree/*`.
-/
namespace MlsVerif.Props.C08
open MlsVerif.Tree MlsVerif.TreeMath

/-! ### (1) no trailing blank -/

theorem trim_no_trailing_blank (t : Tree) : (trim t).getLast? ≠ some none :=
  MlsVerif.Tree.trim_no_trailing_blank t

theorem batchEdit_no_trailing_blank {t t' : Tree} {e : Edits} {added : List Nat}
    (h : batchEdit t e = .ok (added, t')) : t'.getLast? ≠ some none := by
  obtain ⟨_, _, t3, _, _, _, rfl⟩ := batchEdit_ok h
  exact MlsVerif.Tree.trim_no_trailing_blank t3

/-- `encap` keeps "no trailing blank" (the committer's leaf must be in the tree) -/
theorem encap_no_trailing_blank {t : Tree} {self fresh : Nat} {nl : Leaf} {excl : List Nat}
    {o : EncapOut} (hs : PreShape t) (ht : t.getLast? ≠ some none)
    (hL : ∃ L, get t (2 * self) = some (.leaf L)) (h : encap t self nl excl fresh = .ok o) :
    o.tree.getLast? ≠ some none := by
  have hself := self_lt_of_leaf hL
  exact pathUpdated_noTrail (encap_spec h hself).1 (encap_length hs hself h) hL ht

/-- `applyUpdatePath` keeps "no trailing blank" (keys announced on the unfiltered positions) -/
theorem applyUpdatePath_no_trailing_blank {t t' : Tree} {sender : Nat} {nl : Leaf}
    {pk : List (Option Nat)} (hs : PreShape t) (ht : t.getLast? ≠ some none)
    (hf : FilterOk t sender pk) (h : applyUpdatePath t sender nl pk = .ok t') :
    t'.getLast? ≠ some none := by
  obtain ⟨hpu, hL⟩ := applyUpdatePath_spec h
  exact pathUpdated_noTrail hpu (applyUpdatePath_length hs hf h) hL ht

/-! ### (2) added leaves go to the leftmost blank leaf slot -/

/-- `next_empty_leaf(start)`: the first blank leaf slot at or after `start` (a slot beyond the end
counts as blank) -/
theorem nextEmptyLeaf_first (t : Tree) (start : Nat) (hstart : 2 * start ≤ t.length + 1) :
    start ≤ nextEmptyLeaf t start ∧ get t (2 * nextEmptyLeaf t start) = none ∧
    (∀ j, start ≤ j → j < nextEmptyLeaf t start → get t (2 * j) ≠ none) ∧
    (2 * nextEmptyLeaf t start < t.length ∨ nextEmptyLeaf t start = (t.length + 1) / 2) :=
  nextEmptyLeaf_spec t start hstart

/-- if no leaf slot below `start` is blank, `add_leaf(leaf, start)` uses the least leaf index whose
node is blank or beyond the end -/
theorem addLeaf_leftmost {t t' : Tree} {l : Leaf} {start i : Nat}
    (h : addLeaf t l start = .ok (i, t')) (hs : ∀ j < start, get t (2 * j) ≠ none) :
    get t (2 * i) = none ∧ ∀ j < i, get t (2 * j) ≠ none :=
  MlsVerif.Tree.addLeaf_leftmost h hs

/-- the `start` shortcut of `applyAdds` is sound: the added positions are exactly the first
`|ls|` blank leaf slots of `t`, in increasing order -/
theorem applyAdds_leftmost {t t' : Tree} {ls : List Leaf} {start : Nat} {acc added : List Nat}
    (hp : PreShape t) (h : applyAdds t ls start acc = .ok (added, t'))
    (hs : ∀ j < start, get t (2 * j) ≠ none) :
    ∃ new, added = acc.reverse ++ new ∧ new.length = ls.length ∧ new.Pairwise (· < ·) ∧
      (∀ i ∈ new, start ≤ i ∧ get t (2 * i) = none) ∧
      (∀ j, get t (2 * j) = none → j ∈ new ∨ ∀ i ∈ new, i < j) :=
  MlsVerif.Tree.applyAdds_leftmost hp h hs

/-- … in `batchEdit`: the added positions are the first `|adds|` blank leaf slots of the tree
after the removes and updates -/
theorem batchEdit_adds_leftmost {t t' : Tree} {e : Edits} {added : List Nat} (hs : PreShape t)
    (h : batchEdit t e = .ok (added, t')) :
    ∃ t1 t2, applyRemoves t e.removes.reverse = .ok t1 ∧ applyUpdates t1 e.updates = .ok t2 ∧
      added.length = e.adds.length ∧ added.Pairwise (· < ·) ∧
      (∀ i ∈ added, get t2 (2 * i) = none) ∧
      (∀ j, get t2 (2 * j) = none → j ∈ added ∨ ∀ i ∈ added, i < j) :=
  MlsVerif.Tree.batchEdit_adds_leftmost hs h

/-! ### (3) shape -/

theorem shape_preserved_batchEdit {t t' : Tree} {e : Edits} {added : List Nat} (hs : ShapeInv t)
    (hn : NonEmptyInv t) (h : batchEdit t e = .ok (added, t')) : ShapeInv t' :=
  batchEdit_shape hs.1 hn h

theorem shape_preserved_encap {t : Tree} {self fresh : Nat} {nl : Leaf} {excl : List Nat}
    {o : EncapOut} (hs : ShapeInv t) (hL : ∃ L, get t (2 * self) = some (.leaf L))
    (h : encap t self nl excl fresh = .ok o) : ShapeInv o.tree := by
  have hself := self_lt_of_leaf hL
  have hpu := (encap_spec h hself).1
  have hlen := encap_length hs.1 hself h
  exact ⟨pathUpdated_preShape hpu hlen hL hs.1, pathUpdated_noTrail hpu hlen hL hs.2⟩

theorem shape_preserved_applyUpdatePath {t t' : Tree} {sender : Nat} {nl : Leaf}
    {pk : List (Option Nat)} (hs : ShapeInv t) (hf : FilterOk t sender pk)
    (h : applyUpdatePath t sender nl pk = .ok t') : ShapeInv t' := by
  obtain ⟨hpu, hL⟩ := applyUpdatePath_spec h
  have hlen := applyUpdatePath_length hs.1 hf h
  exact ⟨pathUpdated_preShape hpu hlen hL hs.1, pathUpdated_noTrail hpu hlen hL hs.2⟩

/-- the phases of `batchEdit` keep the shape modulo trailing blanks -/
theorem shape_preserved_phases {t : Tree} (hs : PreShape t) :
    (∀ rs t', applyRemoves t rs = .ok t' → PreShape t') ∧
    (∀ us t', applyUpdates t us = .ok t' → PreShape t') ∧
    (∀ ls start acc added t', applyAdds t ls start acc = .ok (added, t') → PreShape t') ∧
    (NonEmptyInv t → ShapeInv (trim t)) :=
  ⟨fun _ _ h => applyRemoves_preShape hs h, fun _ _ h => applyUpdates_preShape hs h,
   fun _ _ _ _ _ h => applyAdds_preShape hs h, fun hn => Add.trim_shape hs hn⟩

/-! ### (4) unmerged lists -/

/-- `insertSorted` adds exactly the new leaf and keeps the list strictly sorted; it fails only if
the leaf is already listed -/
theorem insertSorted_sorted (x : Nat) (ys u : List Nat) (h : insertSorted x ys = some u) :
    (∀ y, y ∈ u ↔ (y ∈ ys ∨ y = x)) ∧ (ys.Pairwise (· < ·) → u.Pairwise (· < ·)) :=
  Add.insertSorted_spec x ys u h

theorem unmerged_preserved_batchEdit {t t' : Tree} {e : Edits} {added : List Nat} (hs : ShapeInv t)
    (hu : UnmergedInv t) (h : batchEdit t e = .ok (added, t')) : UnmergedInv t' :=
  batchEdit_unmerged hs.1 hu h

theorem unmerged_preserved_encap {t : Tree} {self fresh : Nat} {nl : Leaf} {excl : List Nat}
    {o : EncapOut} (hs : ShapeInv t) (hn : NonEmptyInv t) (hu : UnmergedInv t)
    (hL : ∃ L, get t (2 * self) = some (.leaf L)) (h : encap t self nl excl fresh = .ok o) :
    UnmergedInv o.tree := by
  have hself := self_lt_of_leaf hL
  obtain ⟨hpu, hf, _⟩ := encap_spec h hself
  exact pathUpdated_unmerged hpu (encap_length hs.1 hself h) hL hf hs.1 hn hu

theorem unmerged_preserved_applyUpdatePath {t t' : Tree} {sender : Nat} {nl : Leaf}
    {pk : List (Option Nat)} (hs : ShapeInv t) (hn : NonEmptyInv t) (hu : UnmergedInv t)
    (hf : FilterOk t sender pk) (h : applyUpdatePath t sender nl pk = .ok t') :
    UnmergedInv t' := by
  obtain ⟨hpu, hL⟩ := applyUpdatePath_spec h
  exact pathUpdated_unmerged hpu (applyUpdatePath_length hs.1 hf h) hL hf hs.1 hn hu

/-! ### `NonEmptyInv` (needed by (3), (4) and by C09) -/

theorem nonEmpty_preserved_batchEdit {t t' : Tree} {e : Edits} {added : List Nat} (hs : ShapeInv t)
    (hn : NonEmptyInv t) (h : batchEdit t e = .ok (added, t')) : NonEmptyInv t' :=
  batchEdit_nonEmpty hs.1 hn h

theorem nonEmpty_preserved_encap {t : Tree} {self fresh : Nat} {nl : Leaf} {excl : List Nat}
    {o : EncapOut} (hs : ShapeInv t) (hn : NonEmptyInv t)
    (hL : ∃ L, get t (2 * self) = some (.leaf L)) (h : encap t self nl excl fresh = .ok o) :
    NonEmptyInv o.tree := by
  have hself := self_lt_of_leaf hL
  obtain ⟨hpu, hf, _⟩ := encap_spec h hself
  exact pathUpdated_nonEmpty hpu (encap_length hs.1 hself h) hL hf hs.1 hn

theorem nonEmpty_preserved_applyUpdatePath {t t' : Tree} {sender : Nat} {nl : Leaf}
    {pk : List (Option Nat)} (hs : ShapeInv t) (hn : NonEmptyInv t)
    (hf : FilterOk t sender pk) (h : applyUpdatePath t sender nl pk = .ok t') :
    NonEmptyInv t' := by
  obtain ⟨hpu, hL⟩ := applyUpdatePath_spec h
  exact pathUpdated_nonEmpty hpu (applyUpdatePath_length hs.1 hf h) hL hf hs.1 hn

/-! ### (5) uniqueness of stamps -/

/-- `batchEdit` keeps the stamps unique thanks to the `conflicts` checks — provided the HPKE stamps
of the new leaf nodes do not coincide with a *parent* key of the tree, which `conflicts` does not
look at (see `uniq_needs_fresh_leaf_keys` below) -/
theorem uniq_preserved_batchEdit {t t' : Tree} {e : Edits} {added : List Nat} (hs : ShapeInv t)
    (hq : UniqInv t)
    (hfresh : ∀ l ∈ e.adds ++ e.updates.map (·.2), ∀ x P, get t x = some (.parent P) → P.key ≠ l.hpke)
    (h : batchEdit t e = .ok (added, t')) : UniqInv t' :=
  batchEdit_uniq hs.1 hq hfresh h

/-- `encap` keeps the stamps unique when `fresh, fresh+1, …` and the new leaf key do not occur in
the tree (and the new leaf node does not take another member's identity / signature key) -/
theorem uniq_preserved_encap {t : Tree} {self fresh : Nat} {nl : Leaf} {excl : List Nat}
    {o : EncapOut} (hs : ShapeInv t) (hq : UniqInv t) (hL : ∃ L, get t (2 * self) = some (.leaf L))
    (hb : StampsBelow t fresh) (hnl : nl.hpke ∉ keyStamps t) (hnl2 : nl.hpke < fresh)
    (hid : ∀ x L, x ≠ 2 * self → get t x = some (.leaf L) → L.ident ≠ nl.ident ∧ L.sig ≠ nl.sig)
    (h : encap t self nl excl fresh = .ok o) : UniqInv o.tree := by
  have hself := self_lt_of_leaf hL
  obtain ⟨hpu, _, _, hk, hinj⟩ := encap_spec h hself
  refine pathUpdated_uniq hpu (encap_length hs.1 hself h) hL hq ?_ hinj hnl hid
  intro j k hjk
  have := hk j k hjk
  refine ⟨fun hm => ?_, by omega⟩
  have := hb k hm
  omega

theorem uniq_preserved_applyUpdatePath {t t' : Tree} {sender : Nat} {nl : Leaf}
    {pk : List (Option Nat)} (hs : ShapeInv t) (hq : UniqInv t) (hf : FilterOk t sender pk)
    (hk1 : ∀ (j k : Nat), pk[j]? = some (some k) → k ∉ keyStamps t ∧ k ≠ nl.hpke)
    (hk2 : ∀ (j j' k : Nat), pk[j]? = some (some k) → pk[j']? = some (some k) → j = j')
    (hnl : nl.hpke ∉ keyStamps t)
    (hid : ∀ x L, x ≠ 2 * sender → get t x = some (.leaf L) → L.ident ≠ nl.ident ∧ L.sig ≠ nl.sig)
    (h : applyUpdatePath t sender nl pk = .ok t') : UniqInv t' := by
  obtain ⟨hpu, hL⟩ := applyUpdatePath_spec h
  exact pathUpdated_uniq hpu (applyUpdatePath_length hs.1 hf h) hL hq hk1 hk2 hnl hid

/-! ### all invariants; reachable trees -/

theorem wf_preserved_batchEdit {t t' : Tree} {e : Edits} {added : List Nat} (hw : WF t)
    (hfresh : e.FreshKeys t) (h : batchEdit t e = .ok (added, t')) : WF t' :=
  wf_batchEdit hw hfresh h

theorem wf_preserved_encap {t : Tree} {self fresh : Nat} {nl : Leaf} {excl : List Nat}
    {o : EncapOut} (hw : WF t) (hL : ∃ L, get t (2 * self) = some (.leaf L))
    (hb : StampsBelow t fresh) (hnl : nl.hpke ∉ keyStamps t) (hnl2 : nl.hpke < fresh)
    (hid : ∀ x L, x ≠ 2 * self → get t x = some (.leaf L) → L.ident ≠ nl.ident ∧ L.sig ≠ nl.sig)
    (h : encap t self nl excl fresh = .ok o) : WF o.tree :=
  wf_encap hw hL hb hnl hnl2 hid h

theorem wf_preserved_applyUpdatePath {t t' : Tree} {sender : Nat} {nl : Leaf}
    {pk : List (Option Nat)} (hw : WF t) (hf : FilterOk t sender pk)
    (hk1 : ∀ (j k : Nat), pk[j]? = some (some k) → k ∉ keyStamps t ∧ k ≠ nl.hpke)
    (hk2 : ∀ (j j' k : Nat), pk[j]? = some (some k) → pk[j']? = some (some k) → j = j')
    (hnl : nl.hpke ∉ keyStamps t)
    (hid : ∀ x L, x ≠ 2 * sender → get t x = some (.leaf L) → L.ident ≠ nl.ident ∧ L.sig ≠ nl.sig)
    (h : applyUpdatePath t sender nl pk = .ok t') : WF t' :=
  wf_applyUpdatePath hw hf hk1 hk2 hnl hid h

/-- Every tree reachable from a one-member group by proposals (with fresh leaf keys) and
committers' path updates (with fresh stamps) is well-formed. -/
theorem reachable_trees_wf {t : Tree} (h : Reachable t) : WF t := reachable_wf h

/-! ### Non-vacuity and a counterexample -/

private def L (i : Nat) : Option Node := some (.leaf ⟨i, 100 + i, 200 + i⟩)
private def P (k : Nat) (u : List Nat) : Option Node := some (.parent ⟨k, u⟩)

/-- four members; leaf 3 unmerged at the root; node 5 blank -/
private def tA : Tree := [L 0, P 10 [], L 1, P 11 [3], L 2, none, L 3]
/-- remove leaf 1, add two members: the first fills slot 1, the second extends the tree -/
private def eA : Edits := ⟨[1], [], [⟨7, 107, 207⟩, ⟨8, 108, 208⟩]⟩
private def tB : Tree := [L 0, none, L 7, none, L 2, none, L 3, none, L 8]

example : WF tA ∧ StampsBelow tA 1000 := by decide +kernel
example : batchEdit tA eA = .ok ([1, 4], tB) := by decide +kernel
example : eA.FreshKeys tA := by decide +kernel
example : WF tB := by decide +kernel
example : WF tB := wf_preserved_batchEdit (by decide +kernel) (by decide +kernel)
  (show batchEdit tA eA = .ok ([1, 4], tB) by decide +kernel)
-- leftmost: slot 1 (blank after the remove) is filled before the tree is extended
example : nextEmptyLeaf [L 0, none, none, none, L 2, none, L 3] 0 = 1 ∧
    nextEmptyLeaf tA 0 = 4 ∧ nextEmptyLeaf tA 2 = 4 := by decide +kernel
example : trim (tA ++ [none, none]) = tA ∧ (trim (tA ++ [none, none])).getLast? ≠ some none := by
  decide +kernel
-- encap by leaf 0 with fresh stamps 1000, 1001
example : encap tA 0 ⟨0, 300, 200⟩ [] 1000 = .ok
    { tree := [some (.leaf ⟨0, 300, 200⟩), P 1000 [], L 1, P 1001 [], L 2, none, L 3],
      slots := [some 300, some 1000, some 1001], pathKeys := [some 1000, some 1001],
      seals := [(1, [2]), (3, [4, 6])] } := by decide +kernel
example : WF [some (.leaf ⟨0, 300, 200⟩), P 1000 [], L 1, P 1001 [], L 2, none, L 3] := by
  decide +kernel
-- a reachable tree: one member, two adds, then the founder's path update
private def r1 : Tree := [L 0, none, L 1, none, L 2]
private def r2 : Tree := [some (.leaf ⟨0, 300, 200⟩), P 1000 [], L 1, P 1001 [], L 2]

example : Reachable r2 := by
  refine .path (t := r1) (self := 0) (fresh := 1000) (nl := ⟨0, 300, 200⟩) (excl := [1, 2])
    (o := ⟨r2, [some 300, some 1000, some 1001], [some 1000, some 1001], [(1, []), (3, [])]⟩)
    (.edit (t := [L 0]) (e := ⟨[], [], [⟨1, 101, 201⟩, ⟨2, 102, 202⟩]⟩) (added := [1, 2])
      (.init ⟨0, 100, 200⟩) (by decide +kernel) (by decide +kernel))
    ⟨_, rfl⟩ (by decide +kernel) (by decide +kernel) (by decide +kernel) ?_ (by decide +kernel)
  intro x L' hx hg
  have hlt : x < 5 := lt_of_get_some hg
  have hall : ∀ x < 5, x ≠ 2 * 0 →
      ((leafOf? (get r1 x)).all fun L' => L'.ident ≠ 0 ∧ L'.sig ≠ 200) = true := by decide +kernel
  have := hall x hlt hx
  rw [hg] at this
  simpa using this

example : WF r2 := reachable_trees_wf (by
  refine .path (t := r1) (self := 0) (fresh := 1000) (nl := ⟨0, 300, 200⟩) (excl := [1, 2])
    (o := ⟨r2, [some 300, some 1000, some 1001], [some 1000, some 1001], [(1, []), (3, [])]⟩)
    (.edit (t := [L 0]) (e := ⟨[], [], [⟨1, 101, 201⟩, ⟨2, 102, 202⟩]⟩) (added := [1, 2])
      (.init ⟨0, 100, 200⟩) (by decide +kernel) (by decide +kernel))
    ⟨_, rfl⟩ (by decide +kernel) (by decide +kernel) (by decide +kernel) ?_ (by decide +kernel)
  intro x L' hx hg
  have hlt : x < 5 := lt_of_get_some hg
  have hall : ∀ x < 5, x ≠ 2 * 0 →
      ((leafOf? (get r1 x)).all fun L' => L'.ident ≠ 0 ∧ L'.sig ≠ 200) = true := by decide +kernel
  have := hall x hlt hx
  rw [hg] at this
  simpa using this)

/-- (5) needs the freshness hypothesis: `conflicts` does not compare a new leaf's HPKE key with the
parent keys, so a proposal may bring a leaf whose key stamp equals a parent's stamp. (Stamps stand
for key pairs; real keys collide only with negligible probability, so this is a modelling
side condition, not a defect.) -/
theorem uniq_needs_fresh_leaf_keys :
    WF [L 0, P 105 [], L 1] ∧
    batchEdit [L 0, P 105 [], L 1] ⟨[], [], [⟨8, 105, 208⟩]⟩ =
      .ok ([2], [L 0, P 105 [], L 1, none, some (.leaf ⟨8, 105, 208⟩)]) ∧
    ¬ UniqInv [L 0, P 105 [], L 1, none, some (.leaf ⟨8, 105, 208⟩)] := by decide +kernel

end MlsVerif.Props.C08
