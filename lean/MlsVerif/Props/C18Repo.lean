import MlsVerif.Props.C19
/-!
# C18 (availability part) — which resumption PSKs a member can resolve

`GroupStateRepository::resumption_secret` is a lookup path of its own (it does not go through `get_epoch_mut`).
The model `Repo.resumptionSecret` follows its code; the theorems say that for the member's own group it finds exactly
the record `get_epoch_mut` would find — so the availability of a resumption PSK of a past epoch is the retention window
of C19 — that it changes nothing, and that a PSK of another group never comes out of the caches of this one.
-/
namespace MlsVerif.Props.C18Repo
open MlsVerif.Repo

/-- the resumption-secret lookup returns the record the epoch lookup returns, for every repository and id -/
theorem resumption_eq_epoch_lookup (r : Repo) (id : Nat) : r.resumptionSecret id = (r.getEpoch id).1 := by
  unfold Repo.resumptionSecret Repo.getEpoch
  cases hi : r.inserts with
  | nil =>
    simp only
    cases hu : r.updates.find? (·.1 == id) with
    | some x => rfl
    | none => cases hs : r.storedGet id <;> rfl
  | cons p ps =>
    obtain ⟨min, d⟩ := p
    simp only
    by_cases hge : id ≥ min
    · simp [hge]
    · simp only [hge, if_false]
      cases hu : r.updates.find? (·.1 == id) with
      | some x => rfl
      | none => cases hs : r.storedGet id <;> rfl

/-- after a write, a resumption PSK of the own group resolves exactly inside the retention window
(`retention_exact` of C19 carried over to this lookup path) -/
theorem resumption_available_iff {r : Repo} (h : Inv r) {W L : Nat} (hW : r.findMaxId = some W)
    (hL : r.oldestId = some L) (id : Nat) :
    (r.write false false).2.resumptionSecret id ≠ none ↔ max L (W + 1 - r.ret) ≤ id ∧ id ≤ W := by
  rw [resumption_eq_epoch_lookup]
  exact (MlsVerif.Props.C19.retention_exact h hW hL id).2

/-- a PSK of another group is answered from that group's stored records only: whatever this repository holds in its
pending inserts or its update cache (records of its OWN group with, possibly, the same epoch numbers) plays no role -/
theorem other_group_ignores_caches (r : Repo) (other : List Rec) (id : Nat) (ins ups : List Rec) :
    ({ r with inserts := ins, updates := ups } : Repo).resumptionSecretOther other id = r.resumptionSecretOther other id := by
  unfold Repo.resumptionSecretOther
  rfl

/-- … in particular it is unavailable when the other group has no stored record of that epoch, even if the own group
has a pending or cached epoch with the same number (the confusion repaired by fix F32) -/
theorem other_group_not_from_own_cache (r : Repo) (id : Nat) : r.resumptionSecretOther [] id = none := by
  unfold Repo.resumptionSecretOther
  cases r.backend <;> rfl

-- non-vacuity: own group, epoch 5 pending -> found; the same number asked for another group with an empty table -> not found
example : ({ backend := .mem, ret := 3, inserts := [(5, 0)] } : Repo).resumptionSecret 5 = some (5, 0) := by decide
example : ({ backend := .mem, ret := 3, inserts := [(5, 0)] } : Repo).resumptionSecretOther [] 5 = none := by decide
example : ({ backend := .sql, ret := 3, stored := [(3, 0), (4, 0)], inserts := [(5, 0)] } : Repo).resumptionSecret 3 = some (3, 0) := by decide
example : ({ backend := .sql, ret := 3, stored := [(3, 0), (4, 0)], inserts := [(5, 0)] } : Repo).resumptionSecret 6 = none := by decide

end MlsVerif.Props.C18Repo
