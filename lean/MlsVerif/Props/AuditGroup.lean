import MlsVerif.Props.C01Group
import MlsVerif.Props.C02Group
/-! Axiom audit of the composed group properties: every theorem of `Props/C01Group.lean` and
`Props/C02Group.lean` (incl. the external-commit theorems) depends on at most `propext`, `Classical.choice`, `Quot.sound`. -/
open MlsVerif.Props

#print axioms C01Group.invariant_holds
#print axioms C01Group.invariant_preserved
#print axioms C01Group.agreement
#print axioms C01Group.new_epoch_secret_is_committers
#print axioms C01Group.delivered_members_advance
#print axioms C01Group.commit_secret_end_of_chain
#print axioms C01Group.receiver_computes_committers_commit_secret
#print axioms C01Group.receiver_not_stuck
#print axioms C01Group.commit_never_stuck
#print axioms C01Group.joiner_gets_members_state
#print axioms C01Group.receiver_secret_is_derivable

#print axioms C02Group.adversary_bound
#print axioms C02Group.ciphertext_recipients
#print axioms C02Group.outsider_secrecy
#print axioms C02Group.removed_holds_no_key_of_new_tree
#print axioms C02Group.removed_member_forward_secrecy
#print axioms C02Group.removed_ghost_forward_secrecy
#print axioms C02Group.outsider_forward_secrecy
#print axioms C02Group.removed_member_cannot_derive
#print axioms C02Group.welcome_outsider
#print axioms C02Group.welcome_alone
#print axioms C02Group.welcome_contents
#print axioms C02Group.closure_sound
#print axioms C02Group.later45
#print axioms C02Group.example_secrecy
#print axioms C02Group.ghost_secrecy
#print axioms C02Group.member2_derives
#print axioms C02Group.joiner_derives
#print axioms C02Group.removed_member_derives_without_path

-- external commits
#print axioms C01Group.invariant_preserved_ext
#print axioms C01Group.external_commit_epoch_secret
#print axioms C01Group.external_commit_delivered_members_advance
#print axioms C01Group.external_commit_never_stuck
#print axioms C01Group.external_committer_gets_members_state
#print axioms C01Group.external_commit_receivers_tree
#print axioms C01Group.external_receiver_secret_is_derivable

#print axioms C02Group.ciphertext_recipients_ext
#print axioms C02Group.external_init_known_to_old_members
#print axioms C02Group.removed_by_external_commit_holds_no_key
#print axioms C02Group.resync_old_state_forward_secrecy
#print axioms C02Group.resync_old_ghost_forward_secrecy
#print axioms C02Group.outsider_forward_secrecy_ext
#print axioms C02Group.removed_by_external_commit_cannot_derive
#print axioms C02Group.init_chain_secrecy
#print axioms C02Group.epoch_secrets_depend_on_a_root
#print axioms C02Group.never_member_learns_no_epoch_secret
#print axioms C02Group.external_committer_learns_nothing_earlier
#print axioms C02Group.example_resync_secrecy
#print axioms C02Group.member0_follows_external_commit
#print axioms C02Group.joiner_derives_new_epoch
#print axioms C02Group.example_joiner_learns_nothing_earlier
#print axioms C02Group.later456
