import MlsVerif.Gen.Tables
import MlsVerif.Model.Codec
import MlsVerif.Model.SecretTree
import MlsVerif.Model.TreeMath
/-!
# The numeric constants of the models are the ones in the Rust source

`Gen/Tables.lean` is regenerated from the current source on every run (`MAX_LEAF_INDEX` of `tree_kem/node.rs`,
`MAX_RATCHET_BACK_HISTORY` of `group/secret_tree.rs`, `VarInt::MAX` of `mls-rs-codec/src/varint.rs`).  These
statements break when a constant changes in the source and the model is left behind.  (The label strings of the key
schedule and the secret tree are tied at the byte level by the derivation rows of C13 / C05, not here.)
-/
namespace MlsVerif.Props.GenTables

theorem maxLeafIndex_eq : MlsVerif.TreeMath.maxLeafIndex = MlsVerif.Gen.Tables.maxLeafIndex := by decide

theorem maxRatchetBackHistory_eq : MlsVerif.ST.maxRatchetBackHistory = MlsVerif.Gen.Tables.maxRatchetBackHistory := by decide

theorem varintMax_eq : MlsVerif.Codec.varintMax = MlsVerif.Gen.Tables.varintMax := by decide

end MlsVerif.Props.GenTables
