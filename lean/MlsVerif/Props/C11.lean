/-
C11 — pending commits do not change the group until applied; one successor per epoch.

Property theorems about the pending-commit state machine `MlsVerif.Pending.step`.  The invariant `Inv`
and the helper lemmas live in `MlsVerif.Proofs.Pending`.  All statements hold for all worlds, members,
commit numbers and operation lists (no bounds).

Second edition of the model (side-by-side audit of `mls-rs`): commits carry the attributes `hasPath`,
`removes`, `reinit` (`Pending.Kind`) and members a `frozen` flag.  Statements of the first edition that
had to change are marked "ADAPTED" with the reason; the sections "own commits without an update path",
"commits that remove the receiver" and "re-init freeze" are new.
-/
import MlsVerif.Proofs.Pending

namespace MlsVerif.Props.C11
open MlsVerif.Pending

/-! ### the invariant holds in every reachable world -/

/-- `Inv w` (see `MlsVerif.Pending.Inv`):
* every commit `k` has `base ≤ k` (state `k+1` is created after its base) and an author that is a member,
* a commit removes nobody or an existing member other than its author,
* no commit is built on a state that was reached by a reinit commit,
* every member is in an existing state (`cur ≤ commits.length`),
* a pending commit `k` of member `m` is a commit by `m` built on `m`'s current state,
* a member is frozen exactly when its current state was reached by a reinit commit,
* a frozen member has no pending commit.

ADAPTED: four clauses added (commit attributes, `frozen`). -/
theorem inv_iff (w : World) :
    Inv w ↔
      (∀ (k : Nat) (c : Commit), w.commits[k]? = some c → c.base ≤ k ∧ c.author < w.members.length) ∧
      (∀ (k : Nat) (c : Commit), w.commits[k]? = some c →
        ∀ j, c.kind.removes = some j → j ≠ c.author ∧ j < w.members.length) ∧
      (∀ (k : Nat) (c : Commit), w.commits[k]? = some c → stateReinit w.commits c.base = false) ∧
      (∀ (m : Nat) (x : Member), w.members[m]? = some x → x.cur ≤ w.commits.length) ∧
      (∀ (m : Nat) (x : Member) (k : Nat), w.members[m]? = some x → x.pending = some k →
        ∃ c, w.commits[k]? = some c ∧ c.author = m ∧ c.base = x.cur) ∧
      (∀ (m : Nat) (x : Member), w.members[m]? = some x → x.frozen = stateReinit w.commits x.cur) ∧
      (∀ (m : Nat) (x : Member), w.members[m]? = some x → x.frozen = true → x.pending = none) :=
  ⟨fun h => ⟨h.commit_wf, h.kind_wf, h.base_live, h.cur_le, h.pending_wf, h.frozen_wf, h.frozen_pending⟩,
    fun ⟨a, b, c, d, e, f, g⟩ => ⟨a, b, c, d, e, f, g⟩⟩

/-- `stateReinit cs s`: state `s` is `k + 1` for a reinit commit `k` -/
theorem stateReinit_iff (cs : List Commit) (s : Nat) :
    stateReinit cs s = true ↔ ∃ k c, s = k + 1 ∧ cs[k]? = some c ∧ c.kind.reinit = true := by
  cases s with
  | zero => simp [stateReinit]
  | succ k =>
    cases hc : cs[k]? with
    | none => simp [stateReinit, hc]
    | some c => simp [stateReinit, hc]

theorem inv_init (n : Nat) : Inv (init n) := by
  have hmem : ∀ (m : Nat) (x : Member), (init n).members[m]? = some x → x = {} := by
    intro m x h
    simp only [init, List.getElem?_replicate] at h
    split at h
    · cases h; rfl
    · cases h
  refine ⟨?_, ?_, ?_, ?_, ?_, ?_, ?_⟩
  · intro k c h; simp [init] at h
  · intro k c h; simp [init] at h
  · intro k c h; simp [init] at h
  · intro m x h; rw [hmem m x h]; exact Nat.zero_le _
  · intro m x k h hk; rw [hmem m x h] at hk; cases hk
  · intro m x h; rw [hmem m x h]; rfl
  · intro m x h hf; rw [hmem m x h] at hf; cases hf

theorem inv_step (w : World) (op : Op) (hi : Inv w) : Inv (step w op).1 := by
  have h := step_shape w op
  generalize step w op = r at h
  cases h with
  | err r hne => exact hi
  | buildDet m x kd hop hm hp hf hv =>
    exact hi.addCommit _ (hi.cur_le m x hm) (getElem?_lt _ _ _ hm) ((Kind.valid_iff kd _ m).1 hv)
      (by rw [← hi.frozen_wf m x hm]; exact hf)
  | buildAtt m x kd hop hm hp hf hv =>
    have hi' : Inv (addCommit w ⟨m, x.cur, kd⟩) :=
      hi.addCommit _ (hi.cur_le m x hm) (getElem?_lt _ _ _ hm) ((Kind.valid_iff kd _ m).1 hv)
        (by rw [← hi.frozen_wf m x hm]; exact hf)
    refine hi'.setMember m _ ?_ ?_ (hi'.frozen_wf m x hm) (fun h => ?_)
    · have := hi.cur_le m x hm
      simp only [addCommit_commits, List.length_append, List.length_singleton]; omega
    · intro k hk
      simp only [Option.some.injEq] at hk
      subst hk
      exact ⟨_, addCommit_get_last w _, rfl, rfl⟩
    · simp only at h; rw [hf] at h; cases h
  | clear m x hop hm =>
    exact hi.setMember m _ (hi.cur_le m x hm) (fun k hk => by cases hk) (hi.frozen_wf m x hm)
      (fun _ => rfl)
  | own m k x c hop hm hp hc => exact hi.install m k c hc
  | move m k x c hop hm hc he hcase hf hnr => exact hi.install m k c hc
  | removed m k x c hop hm hc hp hb hf hr =>
    exact hi.setMember m _ (hi.cur_le m x hm) (fun k hk => by cases hk) (hi.frozen_wf m x hm)
      (fun _ => rfl)

/-- the invariant holds after any sequence of operations -/
theorem inv_run (w : World) (ops : List Op) (hi : Inv w) : Inv (run w ops).1 := by
  induction ops generalizing w with
  | nil => exact hi
  | cons op ops ih => rw [run_cons]; exact ih _ (inv_step w op hi)

/-- every world reachable from an initial world satisfies the invariant -/
theorem inv_reachable (n : Nat) (ops : List Op) : Inv (run (init n) ops).1 :=
  inv_run _ _ (inv_init n)

/-- no step adds or removes members -/
theorem step_members_length (w : World) (op : Op) :
    (step w op).1.members.length = w.members.length := by
  have h := step_shape w op
  generalize step w op = r at h
  cases h <;> simp

/-! ### errors change nothing -/

theorem error_leaves_world_unchanged (w : World) (op : Op) (h : (step w op).2 ≠ .ok) :
    (step w op).1 = w := by
  have hs := step_shape w op
  generalize step w op = r at hs h
  cases hs with
  | err r hne => rfl
  | _ => exact absurd rfl h

/-! ### building and clearing -/

/-- A successful `build m d kd` changes no member's `cur` and no other member's pending commit; it
appends exactly one commit `{author := m, base := cur m, kind := kd}`; a non-detached build makes that
commit `m`'s pending commit, a detached build leaves all members exactly as they were.  The builder had
no pending commit, was not frozen, and `kd` removes nobody or another existing member.

ADAPTED: `build` carries the commit attributes `kd`; two more facts about the builder. -/
theorem build_keeps_state (w : World) (m : Nat) (d : Bool) (kd : Kind)
    (h : (step w (.build m d kd)).2 = .ok) :
    ∃ x, w.members[m]? = some x ∧ x.pending = none ∧ x.frozen = false ∧
      kd.valid w.members.length m = true ∧
      (step w (.build m d kd)).1.commits = w.commits ++ [{ author := m, base := x.cur, kind := kd }] ∧
      (∀ r : Nat, ((step w (.build m d kd)).1.members[r]?).map Member.cur =
        (w.members[r]?).map Member.cur) ∧
      (∀ r : Nat, r ≠ m → (step w (.build m d kd)).1.members[r]? = w.members[r]?) ∧
      (d = false →
        (step w (.build m d kd)).1.members[m]? = some { x with pending := some w.commits.length }) ∧
      (d = true → (step w (.build m d kd)).1.members = w.members) := by
  cases hm : w.members[m]? with
  | none => rw [step_build_bad w m d kd hm] at h; cases h
  | some x =>
    cases hp : x.pending with
    | some k => rw [step_build_pending w m k x d kd hm hp] at h; cases h
    | none =>
      cases hf : x.frozen with
      | true => rw [step_build_frozen w m x d kd hm hp hf] at h; cases h
      | false =>
        cases hv : kd.valid w.members.length m with
        | false => rw [step_build_invalid w m x d kd hm hp hf hv] at h; cases h
        | true =>
          refine ⟨x, rfl, hp, hf, rfl, ?_⟩
          cases d
          · rw [step_build_attached w m x kd hm hp hf hv]
            have hself := setMember_get_self (addCommit w ⟨m, x.cur, kd⟩) m
              { x with pending := some w.commits.length } x hm
            refine ⟨rfl, fun r => ?_, fun r hr => setMember_get_ne _ m r _ hr, fun _ => hself,
              fun hd => by cases hd⟩
            by_cases hr : r = m
            · subst hr; rw [hself, hm]; rfl
            · rw [setMember_get_ne _ m r _ hr]; rfl
          · rw [step_build_detached w m x kd hm hp hf hv]
            exact ⟨rfl, fun r => rfl, fun r _ => rfl, fun hd => (by cases hd), fun _ => rfl⟩

/-- `build m false kd` then `clear m` leaves every member exactly as before the build (only the commit
list grew), and a further build then succeeds.

ADAPTED: `build` carries the commit attributes `kd`. -/
theorem clear_restores (w w1 w2 : World) (m : Nat) (kd : Kind)
    (h : (step w (.build m false kd)).2 = .ok)
    (hw1 : w1 = (step w (.build m false kd)).1) (hw2 : w2 = (step w1 (.clear m)).1) :
    (step w1 (.clear m)).2 = .ok ∧ w2.members = w.members ∧
      (∃ x, w.members[m]? = some x ∧
        w2.commits = w.commits ++ [{ author := m, base := x.cur, kind := kd }]) ∧
      ∀ d, (step w2 (.build m d kd)).2 = .ok := by
  obtain ⟨x, hm, hp, hf, hv, _⟩ := build_keeps_state w m false kd h
  rw [step_build_attached w m x kd hm hp hf hv] at hw1
  have hself : w1.members[m]? = some { x with pending := some w.commits.length } := by
    rw [hw1]; exact setMember_get_self (addCommit w ⟨m, x.cur, kd⟩) m _ x hm
  have hx : ({ cur := x.cur, pending := none, frozen := x.frozen } : Member) = x := by
    cases x; simp only at hp; subst hp; rfl
  rw [step_clear_ok w1 m _ hself] at hw2 ⊢
  simp only [hx] at hw2
  have hmem : w2.members = w.members := by
    rw [hw2, hw1]
    simp only [setMember_members, addCommit_members, List.set_set]
    exact setMember_same w m x hm
  have hm2 : w2.members[m]? = some x := by rw [hmem]; exact hm
  have hv2 : kd.valid w2.members.length m = true := by rw [hmem]; exact hv
  refine ⟨rfl, hmem, ⟨x, hm, by rw [hw2, hw1]; rfl⟩, fun d => ?_⟩
  cases d
  · rw [step_build_attached w2 m x kd hm2 hp hf hv2]
  · rw [step_build_detached w2 m x kd hm2 hp hf hv2]

/-- With a pending commit, a second build is refused and changes nothing, whatever the commit would
contain.  (A member never holds two pending commits: `Member.pending` is an `Option`.) -/
theorem second_build_rejected (w : World) (m k : Nat) (x : Member) (d : Bool) (kd : Kind)
    (hm : w.members[m]? = some x) (hp : x.pending = some k) :
    step w (.build m d kd) = (w, .existingPendingCommit) :=
  step_build_pending w m k x d kd hm hp

/-- `apply` without a pending commit is refused and changes nothing -/
theorem apply_without_pending_rejected (w : World) (m : Nat) (x : Member)
    (hm : w.members[m]? = some x) (hp : x.pending = none) :
    step w (.apply m) = (w, .pendingCommitNotFound) :=
  step_apply_none w m x hm hp

/-! ### applying / receiving -/

/-- Exactly when `deliver m k` succeeds, and what it does: either `k` is `m`'s pending commit (echo) and
`m` installs it; or `k` is built on `m`'s current state, `m` is not frozen, `k` is not an own commit with
an update path, and then `m` installs it — unless `k` removes `m`, in which case `m` stays where it is
and only loses its pending commit.

ADAPTED: a path-less own commit is processed; the removed receiver does not move; `frozen`. -/
theorem deliver_ok_cases (w : World) (m k : Nat) (h : (step w (.deliver m k)).2 = .ok) :
    ∃ x c, w.members[m]? = some x ∧ w.commits[k]? = some c ∧
      ((x.pending = some k ∧ step w (.deliver m k) = (setMember w m (install k c), .ok)) ∨
        (x.pending ≠ some k ∧ w.epoch c.base = w.epoch x.cur ∧
          ¬ (c.author = m ∧ c.kind.hasPath = true) ∧ c.base = x.cur ∧ x.frozen = false ∧
          ((c.kind.removes ≠ some m ∧
              step w (.deliver m k) = (setMember w m (install k c), .ok)) ∨
           (c.kind.removes = some m ∧
              step w (.deliver m k) = (setMember w m { x with pending := none }, .ok))))) := by
  cases hm : w.members[m]? with
  | none => rw [step_deliver_bad w m k (.inl hm)] at h; cases h
  | some x =>
    cases hc : w.commits[k]? with
    | none => rw [step_deliver_bad w m k (.inr hc)] at h; cases h
    | some c =>
      refine ⟨x, c, rfl, rfl, ?_⟩
      by_cases hp : x.pending = some k
      · exact .inl ⟨hp, step_deliver_echo w m k x c hm hc hp⟩
      · by_cases he : w.epoch c.base = w.epoch x.cur
        · by_cases ha : c.author = m ∧ c.kind.hasPath = true
          · rw [step_deliver_self w m k x c hm hc hp he ha.1 ha.2] at h; cases h
          · by_cases hb : c.base = x.cur
            · by_cases hf : x.frozen = true
              · rw [step_deliver_frozen w m k x c hm hc hp ha hb hf] at h; cases h
              · have hf : x.frozen = false := by simpa using hf
                refine .inr ⟨hp, he, ha, hb, hf, ?_⟩
                by_cases hr : c.kind.removes = some m
                · exact .inr ⟨hr, step_deliver_removed w m k x c hm hc hp ha hb hf hr⟩
                · exact .inl ⟨hr, step_deliver_ok w m k x c hm hc hp ha hb hf hr⟩
            · rw [step_deliver_branch w m k x c hm hc hp he ha hb] at h; cases h
        · rw [step_deliver_stale w m k x c hm hc hp he] at h; cases h

/-- exactly when `applyDet m k` succeeds, and what it does

ADAPTED: the member must not be frozen; the new record is `install k c`. -/
theorem applyDet_ok_cases (w : World) (m k : Nat) (h : (step w (.applyDet m k)).2 = .ok) :
    ∃ x c, w.members[m]? = some x ∧ w.commits[k]? = some c ∧
      step w (.applyDet m k) = (setMember w m (install k c), .ok) ∧
      c.author = m ∧ w.epoch c.base = w.epoch x.cur ∧ x.frozen = false := by
  cases hm : w.members[m]? with
  | none => rw [step_applyDet_bad w m k (.inl hm)] at h; cases h
  | some x =>
    cases hc : w.commits[k]? with
    | none => rw [step_applyDet_bad w m k (.inr hc)] at h; cases h
    | some c =>
      refine ⟨x, c, rfl, rfl, ?_⟩
      by_cases ha : c.author = m
      · by_cases he : w.epoch c.base = w.epoch x.cur
        · cases hf : x.frozen with
          | true => rw [step_applyDet_frozen w m k x c hm hc ha he hf] at h; cases h
          | false => exact ⟨step_applyDet_ok w m k x c hm hc ha he hf, ha, he, rfl⟩
        · rw [step_applyDet_stale w m k x c hm hc ha he] at h; cases h
      · rw [step_applyDet_author w m k x c hm hc ha] at h; cases h

/-- A member that stands on the base of commit `k`, for which `k` is neither the pending commit nor an
own commit with an update path, and which `k` does not remove, processes `k` successfully and ends up
with the record `install k c` (state `k+1`, no pending commit, frozen iff `k` is a reinit commit) — the
same record for every such receiver, and the same record the committer gets from `apply`. -/
theorem processed_commit_installs (w : World) (m k : Nat) (x : Member) (c : Commit) (hi : Inv w)
    (hm : w.members[m]? = some x) (hc : w.commits[k]? = some c) (hp : x.pending ≠ some k)
    (hb : c.base = x.cur) (hown : c.author = m → c.kind.hasPath = false)
    (hr : c.kind.removes ≠ some m) :
    step w (.deliver m k) = (setMember w m (install k c), .ok) ∧
    (setMember w m (install k c)).members[m]? = some (install k c) :=
  ⟨step_deliver_ok w m k x c hm hc hp
    (fun ⟨ha, hpath⟩ => by rw [hown ha] at hpath; cases hpath) hb
    (hi.on_base_not_frozen m k x c hm hc hb) hr, setMember_get_self w m _ x hm⟩

/-- The committer and the receivers reach the same state.  If `m` has the pending commit `k`, then
`apply m` and the own echo `deliver m k` both succeed and give `m` the record `install k c` (state
`k+1`, no pending commit); and for every other member `r` that is in the state the commit was built on
and is not removed by it, `deliver r k` succeeds and gives `r` the same record.

ADAPTED: the receiver removed by the commit is excluded (see `removed_receiver_stays`); the records
carry the `frozen` flag, equal on both sides. -/
theorem apply_eq_receivers (w : World) (m k : Nat) (x : Member) (hi : Inv w)
    (hm : w.members[m]? = some x) (hp : x.pending = some k) :
    ∃ c, w.commits[k]? = some c ∧ c.author = m ∧ c.base = x.cur ∧
      step w (.apply m) = (setMember w m (install k c), .ok) ∧
      step w (.deliver m k) = (setMember w m (install k c), .ok) ∧
      (setMember w m (install k c)).members[m]? = some (install k c) ∧
      (install k c).cur = k + 1 ∧ (install k c).pending = none ∧
      ∀ r y, r ≠ m → w.members[r]? = some y → y.cur = c.base → c.kind.removes ≠ some r →
        step w (.deliver r k) = (setMember w r (install k c), .ok) ∧
        (setMember w r (install k c)).members[r]? = some (install k c) := by
  obtain ⟨c, hc, ha, hb⟩ := hi.pending_wf m x k hm hp
  refine ⟨c, hc, ha, hb, step_apply_ok w m k x c hm hp hc, step_deliver_echo w m k x c hm hc hp,
    setMember_get_self w m _ x hm, rfl, rfl, fun r y hr hy hcur hrem => ?_⟩
  have hpr : y.pending ≠ some k := fun hpr => by
    obtain ⟨c', hc', ha', _⟩ := hi.pending_wf r y k hy hpr
    rw [hc] at hc'; cases hc'; exact hr (ha'.symm.trans ha)
  exact processed_commit_installs w r k y c hi hy hc hpr hcur.symm
    (fun e => absurd (e.symm.trans ha) hr) hrem

/-- A successful `deliver m k` leaves `m` without a pending commit: a received commit discards whatever
was pending.  `m` is then in state `k+1`, except when the commit removes `m`: then `m` stays in its
state (and the pending commit is discarded all the same).

ADAPTED: the removed receiver does not move. -/
theorem foreign_discards_pending (w : World) (m k : Nat) (h : (step w (.deliver m k)).2 = .ok) :
    ∃ x x' c, w.members[m]? = some x ∧ w.commits[k]? = some c ∧
      (step w (.deliver m k)).1.members[m]? = some x' ∧ x'.pending = none ∧
      (x'.cur = k + 1 ∨ (x'.cur = x.cur ∧ c.kind.removes = some m ∧ x.pending ≠ some k)) := by
  obtain ⟨x, c, hm, hc, hcase⟩ := deliver_ok_cases w m k h
  rcases hcase with ⟨_, hs⟩ | ⟨hp, _, _, _, _, ⟨_, hs⟩ | ⟨hr, hs⟩⟩
  · rw [hs]; exact ⟨x, _, c, hm, hc, setMember_get_self w m _ x hm, rfl, .inl rfl⟩
  · rw [hs]; exact ⟨x, _, c, hm, hc, setMember_get_self w m _ x hm, rfl, .inl rfl⟩
  · rw [hs]; exact ⟨x, _, c, hm, hc, setMember_get_self w m _ x hm, rfl, .inr ⟨rfl, hr, hp⟩⟩

/-- the other members are not touched by `deliver m k` -/
theorem deliver_others_unchanged (w : World) (m k r : Nat) (hr : r ≠ m) :
    (step w (.deliver m k)).1.members[r]? = w.members[r]? := by
  by_cases h : (step w (.deliver m k)).2 = .ok
  · obtain ⟨x, c, _, _, hcase⟩ := deliver_ok_cases w m k h
    rcases hcase with ⟨_, hs⟩ | ⟨_, _, _, _, _, ⟨_, hs⟩ | ⟨_, hs⟩⟩ <;>
      (rw [hs]; exact setMember_get_ne w m r _ hr)
  · rw [error_leaves_world_unchanged w _ h]

/-- Commits are accepted for the current state only.  Under the invariant a successful `deliver m k`
means that commit `k` was built on the state `m` is in; and a commit from another epoch that is not
`m`'s own pending commit is refused with `InvalidEpoch`. -/
theorem only_current_epoch (w : World) (m k : Nat) (x : Member) (c : Commit)
    (hm : w.members[m]? = some x) (hc : w.commits[k]? = some c) :
    (Inv w → (step w (.deliver m k)).2 = .ok → c.base = x.cur) ∧
    (w.epoch c.base ≠ w.epoch x.cur → x.pending ≠ some k →
      step w (.deliver m k) = (w, .invalidEpoch)) := by
  refine ⟨fun hi h => ?_, fun he hp => step_deliver_stale w m k x c hm hc hp he⟩
  obtain ⟨x', c', hm', hc', hcase⟩ := deliver_ok_cases w m k h
  rw [hm] at hm'; rw [hc] at hc'
  cases hm'; cases hc'
  rcases hcase with ⟨hp, _⟩ | ⟨_, _, _, hb, _⟩
  · obtain ⟨c'', hc'', _, hb⟩ := hi.pending_wf m x k hm hp
    rw [hc] at hc''; cases hc''; exact hb
  · exact hb

/-- same epoch number, other branch: refused as well -/
theorem other_branch_rejected (w : World) (m k : Nat) (x : Member) (c : Commit)
    (hm : w.members[m]? = some x) (hc : w.commits[k]? = some c) (hp : x.pending ≠ some k)
    (hb : c.base ≠ x.cur) : (step w (.deliver m k)).2 ≠ .ok ∧ (step w (.deliver m k)).1 = w := by
  have hne : (step w (.deliver m k)).2 ≠ .ok := fun h => by
    obtain ⟨x', c', hm', hc', hcase⟩ := deliver_ok_cases w m k h
    rw [hm] at hm'; rw [hc] at hc'
    cases hm'; cases hc'
    rcases hcase with ⟨hp', _⟩ | ⟨_, _, _, hb', _⟩
    · exact hp hp'
    · exact hb hb'
  exact ⟨hne, error_leaves_world_unchanged w _ hne⟩

/-- Detached commit secrets of another epoch are refused with `InvalidEpoch` and nothing changes;
a successful `applyDet m k` requires equal epochs (this does not even need the invariant). -/
theorem stale_detached_rejected (w : World) (m k : Nat) (x : Member) (c : Commit)
    (hm : w.members[m]? = some x) (hc : w.commits[k]? = some c) :
    (c.author = m → w.epoch c.base ≠ w.epoch x.cur →
      step w (.applyDet m k) = (w, .invalidEpoch)) ∧
    (w.epoch c.base ≠ w.epoch x.cur →
      (step w (.applyDet m k)).2 ≠ .ok ∧ (step w (.applyDet m k)).1 = w) ∧
    ((step w (.applyDet m k)).2 = .ok → w.epoch c.base = w.epoch x.cur) := by
  have h3 : (step w (.applyDet m k)).2 = .ok → w.epoch c.base = w.epoch x.cur := fun h => by
    obtain ⟨x', c', hm', hc', _, _, he, _⟩ := applyDet_ok_cases w m k h
    rw [hm] at hm'; rw [hc] at hc'
    cases hm'; cases hc'; exact he
  refine ⟨fun ha he => step_applyDet_stale w m k x c hm hc ha he, fun he => ?_, h3⟩
  have hne : (step w (.applyDet m k)).2 ≠ .ok := fun h => he (h3 h)
  exact ⟨hne, error_leaves_world_unchanged w _ hne⟩

/-! ### epochs move in steps of exactly one -/

/-- what a step does to one member: either its state (and the epoch of that state) stays — this
includes the receiver removed by the commit it processes — or the step succeeded and the member is now
in a state exactly one epoch later -/
theorem step_member (w : World) (op : Op) (hi : Inv w) (m : Nat) (x : Member)
    (hm : w.members[m]? = some x) :
    ∃ x', (step w op).1.members[m]? = some x' ∧
      ((x'.cur = x.cur ∧ (step w op).1.epoch x'.cur = w.epoch x.cur) ∨
       ((step w op).2 = .ok ∧ x'.cur ≠ x.cur ∧
        (step w op).1.epoch x'.cur = w.epoch x.cur + 1)) := by
  have h := step_shape w op
  generalize step w op = r at h
  cases h with
  | err r hne => exact ⟨x, hm, .inl ⟨rfl, rfl⟩⟩
  | buildDet m' x0 kd hop hm0 hp hf hv =>
    exact ⟨x, hm, .inl ⟨rfl, addCommit_epoch w _ hi.commitsWF _ (hi.cur_le m x hm)⟩⟩
  | buildAtt m' x0 kd hop hm0 hp hf hv =>
    have he := addCommit_epoch w ⟨m', x0.cur, kd⟩ hi.commitsWF _ (hi.cur_le m x hm)
    by_cases hr : m = m'
    · subst hr
      rw [hm] at hm0; cases hm0
      exact ⟨_, setMember_get_self (addCommit w _) m _ x hm, .inl ⟨rfl, he⟩⟩
    · exact ⟨x, by rw [setMember_get_ne _ m' m _ hr]; exact hm, .inl ⟨rfl, he⟩⟩
  | clear m' x0 hop hm0 =>
    by_cases hr : m = m'
    · subst hr
      rw [hm] at hm0; cases hm0
      exact ⟨_, setMember_get_self w m _ x hm, .inl ⟨rfl, rfl⟩⟩
    · exact ⟨x, by rw [setMember_get_ne _ m' m _ hr]; exact hm, .inl ⟨rfl, rfl⟩⟩
  | removed m' k x0 c hop hm0 hc hp hb hf hrm =>
    by_cases hr : m = m'
    · subst hr
      rw [hm] at hm0; cases hm0
      exact ⟨_, setMember_get_self w m _ x hm, .inl ⟨rfl, rfl⟩⟩
    · exact ⟨x, by rw [setMember_get_ne _ m' m _ hr]; exact hm, .inl ⟨rfl, rfl⟩⟩
  | own m' k x0 c0 hop hm0 hp hc0 =>
    by_cases hr : m = m'
    · subst hr
      rw [hm] at hm0; cases hm0
      obtain ⟨c, hc, _, hb⟩ := hi.pending_wf m x k hm hp
      rw [hc0] at hc; cases hc
      have hbk := (hi.commit_wf k c0 hc0).1
      refine ⟨_, setMember_get_self w m _ x hm, .inr ⟨rfl, ?_, ?_⟩⟩
      · show k + 1 ≠ x.cur
        omega
      · rw [setMember_epoch]
        show w.epoch (k + 1) = _
        rw [epoch_succ w hi.commitsWF k c0 hc0, hb]
    · exact ⟨x, by rw [setMember_get_ne _ m' m _ hr]; exact hm, .inl ⟨rfl, rfl⟩⟩
  | move m' k x0 c hop hm0 hc he hcase hf hnr =>
    by_cases hr : m = m'
    · subst hr
      rw [hm] at hm0; cases hm0
      have hs : w.epoch (k + 1) = w.epoch x.cur + 1 := by
        rw [epoch_succ w hi.commitsWF k c hc, he]
      refine ⟨_, setMember_get_self w m _ x hm, .inr ⟨rfl, ?_, ?_⟩⟩
      · show k + 1 ≠ x.cur
        intro e; rw [e] at hs; omega
      · rw [setMember_epoch]; exact hs
    · exact ⟨x, by rw [setMember_get_ne _ m' m _ hr]; exact hm, .inl ⟨rfl, rfl⟩⟩

/-- Whenever a step changes `cur m` from `s` to `s'`, the step succeeded and the new state is exactly
one epoch after the old one.  (A member removed by the commit it processes keeps `cur`: no change.) -/
theorem epoch_increases_by_one (w : World) (op : Op) (hi : Inv w) (m : Nat) (x x' : Member)
    (hm : w.members[m]? = some x) (hm' : (step w op).1.members[m]? = some x')
    (hne : x'.cur ≠ x.cur) :
    (step w op).2 = .ok ∧ (step w op).1.epoch x'.cur = w.epoch x.cur + 1 := by
  obtain ⟨x'', hx'', h⟩ := step_member w op hi m x hm
  rw [hm'] at hx''; cases hx''
  rcases h with ⟨h, _⟩ | ⟨h1, _, h2⟩
  · exact absurd h hne
  · exact ⟨h1, h2⟩

/-- if the state does not change, neither does its epoch (appending commits does not renumber) -/
theorem epoch_stable (w : World) (op : Op) (hi : Inv w) (m : Nat) (x x' : Member)
    (hm : w.members[m]? = some x) (hm' : (step w op).1.members[m]? = some x')
    (heq : x'.cur = x.cur) : (step w op).1.epoch x'.cur = w.epoch x.cur := by
  obtain ⟨x'', hx'', h⟩ := step_member w op hi m x hm
  rw [hm'] at hx''; cases hx''
  rcases h with ⟨_, h⟩ | ⟨_, hne, _⟩
  · exact h
  · exact absurd heq hne

/-- members stay members along a run -/
theorem run_member_exists (w : World) (ops : List Op) (hi : Inv w) (m : Nat) (x : Member)
    (hm : w.members[m]? = some x) : ∃ x', (run w ops).1.members[m]? = some x' := by
  induction ops generalizing w x with
  | nil => exact ⟨x, hm⟩
  | cons op ops ih =>
    obtain ⟨x1, hx1, _⟩ := step_member w op hi m x hm
    rw [run_cons]; exact ih _ (inv_step w op hi) x1 hx1

/-- Along any run, each further operation leaves a member's epoch alone or raises it by exactly one. -/
theorem run_epoch_steps_of_one (w : World) (ops : List Op) (op : Op) (hi : Inv w) (m : Nat)
    (x : Member) (hm : (run w ops).1.members[m]? = some x) :
    ∃ x', (run w (ops ++ [op])).1.members[m]? = some x' ∧
      ((run w (ops ++ [op])).1.epoch x'.cur = (run w ops).1.epoch x.cur ∨
       (run w (ops ++ [op])).1.epoch x'.cur = (run w ops).1.epoch x.cur + 1) := by
  obtain ⟨x', hx', h⟩ := step_member (run w ops).1 op (inv_run w ops hi) m x hm
  rw [run_snoc_fst]
  refine ⟨x', hx', ?_⟩
  rcases h with ⟨_, h⟩ | ⟨_, _, h⟩
  · exact .inl h
  · exact .inr h

/-- Along any run, every member's epoch is non-decreasing (and grows by at most the number of
operations). -/
theorem run_epoch_monotone (w : World) (ops : List Op) (hi : Inv w) (m : Nat) (x : Member)
    (hm : w.members[m]? = some x) :
    ∃ x', (run w ops).1.members[m]? = some x' ∧
      w.epoch x.cur ≤ (run w ops).1.epoch x'.cur ∧
      (run w ops).1.epoch x'.cur ≤ w.epoch x.cur + ops.length := by
  induction ops generalizing w x with
  | nil => exact ⟨x, hm, Nat.le_refl _, Nat.le_refl _⟩
  | cons op ops ih =>
    obtain ⟨x1, hx1, h1⟩ := step_member w op hi m x hm
    obtain ⟨x', hx', h2, h3⟩ := ih (step w op).1 (inv_step w op hi) x1 hx1
    have hrun : (run w (op :: ops)).1 = (run (step w op).1 ops).1 := rfl
    rw [hrun]
    refine ⟨x', hx', ?_, ?_⟩
    · rcases h1 with ⟨_, h1⟩ | ⟨_, _, h1⟩ <;> omega
    · simp only [List.length_cons]
      rcases h1 with ⟨_, h1⟩ | ⟨_, _, h1⟩ <;> omega

/-! ### one successor per epoch: members move along the tree of states

`Hist w` (see `MlsVerif.Pending.Hist`): every commit was built on a state that its author's current
state descends from.  Together with `Inv` it holds in every reachable world, and it turns the epoch
*number* comparison of `applyDet` into an identity of *states*. -/

theorem hist_init (n : Nat) : Hist (init n) := by
  intro k c x hc _
  simp [init] at hc

/-- in a world with `Inv` and `Hist`, a commit accepted on the epoch *number* by its author (`applyDet`)
was built on the very state the author is in -/
theorem base_eq_of_epoch (w : World) (hi : Inv w) (hh : Hist w) (m k : Nat) (x : Member) (c : Commit)
    (hm : w.members[m]? = some x) (hc : w.commits[k]? = some c)
    (he : w.epoch c.base = w.epoch x.cur) (hcase : c.author = m ∨ c.base = x.cur) :
    c.base = x.cur := by
  rcases hcase with ha | hb
  · rcases (hh k c x hc (by rw [ha]; exact hm)).eq_or_lt w hi.commitsWF with e | e
    · exact e
    · omega
  · exact hb

theorem hist_step (w : World) (op : Op) (hi : Inv w) (hh : Hist w) : Hist (step w op).1 := by
  have h := step_shape w op
  generalize step w op = r at h
  cases h with
  | err r hne => exact hh
  | buildDet m x kd hop hm hp hf hv => exact hh.addCommit m x kd hm
  | buildAtt m x kd hop hm hp hf hv => exact (hh.addCommit m x kd hm).setMember m x _ hm (.refl _)
  | clear m x hop hm => exact hh.setMember m x _ hm (.refl _)
  | removed m k x c hop hm hc hp hb hf hr => exact hh.setMember m x _ hm (.refl _)
  | own m k x c0 hop hm hp hc0 =>
    obtain ⟨c, hc, _, hb⟩ := hi.pending_wf m x k hm hp
    rw [hc0] at hc; cases hc
    exact hh.setMember m x _ hm (.up _ k c0 hc0 (hb ▸ .refl _))
  | move m k x c hop hm hc he hcase hf hnr =>
    have hb : c.base = x.cur := base_eq_of_epoch w hi hh m k x c hm hc he hcase
    exact hh.setMember m x _ hm (.up _ k c hc (hb ▸ .refl _))

theorem hist_run (w : World) (ops : List Op) (hi : Inv w) (hh : Hist w) : Hist (run w ops).1 := by
  induction ops generalizing w with
  | nil => exact hh
  | cons op ops ih => rw [run_cons]; exact ih _ (inv_step w op hi) (hist_step w op hi hh)

theorem hist_reachable (n : Nat) (ops : List Op) : Hist (run (init n) ops).1 :=
  hist_run _ _ (inv_init n) (hist_init n)

/-- In a reachable world, detached commit secrets are accepted only on the very state they were built
on: the epoch-number test of `apply_detached_commit` is as strong as comparing states, because a member
passes through exactly one state per epoch. -/
theorem detached_only_on_base (w : World) (m k : Nat) (x : Member) (c : Commit) (hi : Inv w)
    (hh : Hist w) (hm : w.members[m]? = some x) (hc : w.commits[k]? = some c)
    (h : (step w (.applyDet m k)).2 = .ok) : c.base = x.cur := by
  obtain ⟨x', c', hm', hc', _, ha, he, _⟩ := applyDet_ok_cases w m k h
  rw [hm] at hm'; rw [hc] at hc'
  cases hm'; cases hc'
  exact base_eq_of_epoch w hi hh m k x c hm hc he (.inl ha)

/-- In a reachable world, whenever a step changes `cur m` from `s` to `s'`, then `s' = k+1` for a
commit `k` built on `s`: the only way to leave a state is along one of the commits built on it.  The
member's new record is `install k c`: no pending commit, frozen iff `k` is a reinit commit.

ADAPTED: one more conjunct (`x' = install k c`). -/
theorem moves_follow_commits (w : World) (op : Op) (hi : Inv w) (hh : Hist w) (m : Nat)
    (x x' : Member) (hm : w.members[m]? = some x) (hm' : (step w op).1.members[m]? = some x')
    (hne : x'.cur ≠ x.cur) :
    ∃ k c, w.commits[k]? = some c ∧ c.base = x.cur ∧ x'.cur = k + 1 ∧ x' = install k c := by
  have h := step_shape w op
  generalize step w op = r at h hm'
  cases h with
  | err r hne' => rw [hm] at hm'; cases hm'; exact absurd rfl hne
  | buildDet m0 x0 kd hop hm0 hp hf hv =>
    rw [addCommit_members, hm] at hm'; cases hm'; exact absurd rfl hne
  | buildAtt m0 x0 kd hop hm0 hp hf hv =>
    rcases setMember_get_cases _ m0 m _ x' hm' with ⟨rfl, rfl⟩ | ⟨_, h'⟩
    · rw [hm] at hm0; cases hm0; exact absurd rfl hne
    · rw [addCommit_members, hm] at h'; cases h'; exact absurd rfl hne
  | clear m0 x0 hop hm0 =>
    rcases setMember_get_cases _ m0 m _ x' hm' with ⟨rfl, rfl⟩ | ⟨_, h'⟩
    · rw [hm] at hm0; cases hm0; exact absurd rfl hne
    · rw [hm] at h'; cases h'; exact absurd rfl hne
  | removed m0 k x0 c hop hm0 hc hp hb hf hr =>
    rcases setMember_get_cases _ m0 m _ x' hm' with ⟨rfl, rfl⟩ | ⟨_, h'⟩
    · rw [hm] at hm0; cases hm0; exact absurd rfl hne
    · rw [hm] at h'; cases h'; exact absurd rfl hne
  | own m0 k x0 c0 hop hm0 hp hc0 =>
    rcases setMember_get_cases _ m0 m _ x' hm' with ⟨rfl, rfl⟩ | ⟨_, h'⟩
    · rw [hm] at hm0; cases hm0
      obtain ⟨c, hc, _, hb⟩ := hi.pending_wf m x k hm hp
      rw [hc0] at hc; cases hc
      exact ⟨k, c0, hc0, hb, rfl, rfl⟩
    · rw [hm] at h'; cases h'; exact absurd rfl hne
  | move m0 k x0 c hop hm0 hc he hcase hf hnr =>
    rcases setMember_get_cases _ m0 m _ x' hm' with ⟨rfl, rfl⟩ | ⟨_, h'⟩
    · rw [hm] at hm0; cases hm0
      exact ⟨k, c, hc, base_eq_of_epoch w hi hh m k x c hm hc he hcase, rfl, rfl⟩
    · rw [hm] at h'; cases h'; exact absurd rfl hne

/-! ### own commits without an update path -/

/-- A member's own commit that is not (any more) its pending commit — after `clear`, or a detached
commit — and that has no update path is processed like anybody else's commit: built on the member's
current state, it is accepted and gives the member the record `install k c` (state `k+1`), the very
record every other receiver gets (`processed_commit_installs`) and the committer would have got from
`apply` (`apply_eq_receivers`). -/
theorem own_pathless_processed (w : World) (m k : Nat) (x : Member) (c : Commit) (hi : Inv w)
    (hm : w.members[m]? = some x) (hc : w.commits[k]? = some c) (ha : c.author = m)
    (hnp : c.kind.hasPath = false) (hp : x.pending ≠ some k) (hb : c.base = x.cur) :
    step w (.deliver m k) = (setMember w m (install k c), .ok) ∧
    (setMember w m (install k c)).members[m]? = some (install k c) :=
  processed_commit_installs w m k x c hi hm hc hp hb (fun _ => hnp)
    (fun hr => (hi.kind_wf k c hc m hr).1 ha.symm)

/-- An own commit with an update path that is not the pending commit is refused and nothing changes:
`cantProcessMessageFromSelf` if it is for the member's epoch number, `invalidEpoch` otherwise. -/
theorem own_with_path_rejected (w : World) (m k : Nat) (x : Member) (c : Commit)
    (hm : w.members[m]? = some x) (hc : w.commits[k]? = some c) (ha : c.author = m)
    (hpath : c.kind.hasPath = true) (hp : x.pending ≠ some k) :
    (step w (.deliver m k)).1 = w ∧
    ((w.epoch c.base = w.epoch x.cur ∧ (step w (.deliver m k)).2 = .cantProcessMessageFromSelf) ∨
     (w.epoch c.base ≠ w.epoch x.cur ∧ (step w (.deliver m k)).2 = .invalidEpoch)) := by
  by_cases he : w.epoch c.base = w.epoch x.cur
  · rw [step_deliver_self w m k x c hm hc hp he ha hpath]; exact ⟨rfl, .inl ⟨he, rfl⟩⟩
  · rw [step_deliver_stale w m k x c hm hc hp he]; exact ⟨rfl, .inr ⟨he, rfl⟩⟩

/-- `build`, `clear`, then the own commit comes back as a message.  Without an update path: accepted,
and the member ends in exactly the record `apply` would have given it (state `k+1`), like the other
receivers.  With an update path: `cantProcessMessageFromSelf`, and the world stays as `clear` left it. -/
theorem own_commit_after_clear (w : World) (m k : Nat) (x : Member) (hi : Inv w)
    (hm : w.members[m]? = some x) (hp : x.pending = some k) :
    ∃ c, w.commits[k]? = some c ∧ c.author = m ∧ c.base = x.cur ∧
      (c.kind.hasPath = false →
        (run w [.clear m, .deliver m k]).2 = [.ok, .ok] ∧
        (run w [.clear m, .deliver m k]).1.members[m]? = some (install k c) ∧
        (step w (.apply m)).1.members[m]? = some (install k c)) ∧
      (c.kind.hasPath = true →
        (run w [.clear m, .deliver m k]).2 = [.ok, .cantProcessMessageFromSelf] ∧
        (run w [.clear m, .deliver m k]).1 = (step w (.clear m)).1) := by
  obtain ⟨c, hc, ha, hb⟩ := hi.pending_wf m x k hm hp
  have hcl := step_clear_ok w m x hm
  have hi1 : Inv (setMember w m { x with pending := none }) := by
    have := inv_step w (.clear m) hi; rwa [hcl] at this
  have hm1 := setMember_get_self w m { x with pending := none } x hm
  have hc1 : (setMember w m { x with pending := none }).commits[k]? = some c := hc
  have hp1 : ({ x with pending := none } : Member).pending ≠ some k := fun h => by cases h
  refine ⟨c, hc, ha, hb, fun hnp => ?_, fun hpath => ?_⟩
  · obtain ⟨h1, h2⟩ := own_pathless_processed _ m k _ c hi1 hm1 hc1 ha hnp hp1 hb
    refine ⟨?_, ?_, ?_⟩
    · simp only [run_cons, run_nil, hcl, h1]
    · simp only [run_cons, run_nil, hcl, h1]; exact h2
    · rw [step_apply_ok w m k x c hm hp hc]; exact setMember_get_self w m _ x hm
  · have h1 := step_deliver_self _ m k _ c hm1 hc1 hp1 (by rw [hb]) ha hpath
    refine ⟨?_, ?_⟩
    · simp only [run_cons, run_nil, hcl, h1]
    · simp only [run_cons, run_nil, hcl, h1]

/-! ### commits that remove the receiver -/

/-- A member `r` that processes a commit removing it (it stands on the commit's base) succeeds, keeps
its state — it does not move to `k+1`, its epoch does not change — and loses its pending commit.  Every
other member `q` on the same base, for which the commit is not a non-pending own commit with an update
path, moves to the common record `install k c` (state `k+1`). -/
theorem removed_receiver_stays (w : World) (r k : Nat) (x : Member) (c : Commit) (hi : Inv w)
    (hm : w.members[r]? = some x) (hc : w.commits[k]? = some c) (hb : c.base = x.cur)
    (hr : c.kind.removes = some r) :
    step w (.deliver r k) = (setMember w r { x with pending := none }, .ok) ∧
    (step w (.deliver r k)).1.members[r]? = some { x with pending := none } ∧
    (step w (.deliver r k)).1.epoch x.cur = w.epoch x.cur ∧
    ∀ q y, q ≠ r → w.members[q]? = some y → y.cur = c.base →
      (c.author ≠ q ∨ c.kind.hasPath = false ∨ y.pending = some k) →
      step w (.deliver q k) = (setMember w q (install k c), .ok) ∧
      (setMember w q (install k c)).members[q]? = some (install k c) := by
  have hnr : r ≠ c.author := (hi.kind_wf k c hc r hr).1
  have hp : x.pending ≠ some k := fun hp => by
    obtain ⟨c', hc', ha', _⟩ := hi.pending_wf r x k hm hp
    rw [hc] at hc'; cases hc'; exact hnr ha'.symm
  have hs := step_deliver_removed w r k x c hm hc hp (fun ⟨ha, _⟩ => hnr ha.symm) hb
    (hi.on_base_not_frozen r k x c hm hc hb) hr
  refine ⟨hs, ?_, ?_, fun q y hq hy hcur hcase => ?_⟩
  · rw [hs]; exact setMember_get_self w r _ x hm
  · rw [hs]; rfl
  · by_cases hpq : y.pending = some k
    · exact ⟨step_deliver_echo w q k y c hy hc hpq, setMember_get_self w q _ y hy⟩
    · refine processed_commit_installs w q k y c hi hy hc hpq hcur.symm (fun ha => ?_)
        (fun h => by rw [hr] at h; cases h; exact hq rfl)
      rcases hcase with h | h | h
      · exact absurd ha h
      · exact h
      · exact absurd h hpq

/-- A commit built on a state outside the part of the state tree below `k+1` is never accepted by a
member that is in that part (because it processed commit `k`, and possibly more): the epoch numbers or
the base states differ. -/
theorem outside_commit_rejected (w : World) (q k k' : Nat) (y : Member) (c' : Commit) (hi : Inv w)
    (hy : w.members[q]? = some y) (hanc : Anc w.commits (k + 1) y.cur)
    (hc' : w.commits[k']? = some c') (hout : ¬ Anc w.commits (k + 1) c'.base) :
    (step w (.deliver q k')).2 ≠ .ok ∧ (step w (.deliver q k')).1 = w := by
  have hne : (step w (.deliver q k')).2 ≠ .ok := fun h =>
    hout (((only_current_epoch w q k' y c' hy hc').1 hi h) ▸ hanc)
  exact ⟨hne, error_leaves_world_unchanged w _ hne⟩

/-- `Exiled w k r n0`: member `r` is outside the part of the state tree below `k+1`, and so is the base
of every commit numbered `n0` or more that `r` built. -/
structure Exiled (w : World) (k r n0 : Nat) : Prop where
  cur_out : ∀ x, w.members[r]? = some x → ¬ Anc w.commits (k + 1) x.cur
  commits_out : ∀ (k' : Nat) (c' : Commit), n0 ≤ k' → w.commits[k']? = some c' → c'.author = r →
    ¬ Anc w.commits (k + 1) c'.base

theorem Exiled.setMember {w : World} {k r n0 : Nat} (he : Exiled w k r n0) (m : Nat) (y : Member)
    (hy : m = r → ¬ Anc w.commits (k + 1) y.cur) : Exiled (setMember w m y) k r n0 where
  cur_out z hz := by
    rcases setMember_get_cases w m r y z hz with ⟨e, rfl⟩ | ⟨_, hz'⟩
    · exact hy e.symm
    · exact he.cur_out z hz'
  commits_out k' c' hk hc ha := he.commits_out k' c' hk hc ha

theorem Exiled.addCommit {w : World} {k r n0 : Nat} (he : Exiled w k r n0) (hi : Inv w) (m : Nat)
    (x : Member) (kd : Kind) (hm : w.members[m]? = some x) :
    Exiled (addCommit w ⟨m, x.cur, kd⟩) k r n0 := by
  have hadd : ∀ s, s ≤ w.commits.length → ¬ Anc w.commits (k + 1) s →
      ¬ Anc (w.commits ++ [⟨m, x.cur, kd⟩]) (k + 1) s :=
    fun s hs hn h => hn (h.of_append hi.commitsWF _ hs)
  refine ⟨fun z hz => hadd _ (hi.cur_le r z hz) (he.cur_out z hz), fun k' c' hk hc ha => ?_⟩
  simp only [addCommit_commits] at hc ⊢
  rcases append_singleton_get _ _ _ _ hc with hc' | ⟨_, rfl⟩
  · have hb := (hi.commit_wf k' c' hc').1
    have hlt := getElem?_lt _ _ _ hc'
    exact hadd _ (by omega) (he.commits_out k' c' hk hc' ha)
  · simp only at ha ⊢
    subst ha
    exact hadd _ (hi.cur_le _ x hm) (he.cur_out x hm)

/-- a member removed by commit `k` never enters the part of the state tree below `k+1` -/
theorem exiled_step (w : World) (op : Op) (k r n0 : Nat) (c : Commit) (hi : Inv w) (hh : Hist w)
    (hc : w.commits[k]? = some c) (hr : c.kind.removes = some r) (he : Exiled w k r n0) :
    Exiled (step w op).1 k r n0 := by
  have hnr : r ≠ c.author := (hi.kind_wf k c hc r hr).1
  -- `r` cannot install a commit `k0` built on its current state: `k0 ≠ k`, and the base is outside
  have hinst : ∀ (k0 : Nat) (c0 : Commit) (x : Member), w.members[r]? = some x →
      w.commits[k0]? = some c0 → c0.base = x.cur → (k0 = k → c0.author = r) →
      ¬ Anc w.commits (k + 1) (install k0 c0).cur := by
    intro k0 c0 x hx hc0 hb0 hown hanc
    rcases hanc.succ_cases with e | ⟨c1, hc1, h1⟩
    · have ek : k0 = k := by omega
      subst ek
      rw [hc] at hc0; cases hc0
      exact hnr (hown rfl).symm
    · rw [hc0] at hc1; cases hc1
      rw [hb0] at h1; exact he.cur_out x hx h1
  have h := step_shape w op
  generalize step w op = res at h
  cases h with
  | err r' hne => exact he
  | buildDet m x kd hop hm hp hf hv => exact he.addCommit hi m x kd hm
  | buildAtt m x kd hop hm hp hf hv =>
    refine (he.addCommit hi m x kd hm).setMember m _ (fun e => ?_)
    exact (he.addCommit hi m x kd hm).cur_out x (by rw [← e]; exact hm)
  | clear m x hop hm => exact he.setMember m _ (fun e => he.cur_out x (by rw [← e]; exact hm))
  | removed m k0 x c0 hop hm hc0 hp hb hf hr0 =>
    exact he.setMember m _ (fun e => he.cur_out x (by rw [← e]; exact hm))
  | own m k0 x c0 hop hm hp hc0 =>
    refine he.setMember m _ (fun e => ?_)
    subst e
    obtain ⟨c1, hc1, ha1, hb1⟩ := hi.pending_wf m x k0 hm hp
    rw [hc0] at hc1; cases hc1
    exact hinst k0 c0 x hm hc0 hb1 (fun _ => ha1)
  | move m k0 x c0 hop hm hc0 he0 hcase hf hnr0 =>
    refine he.setMember m _ (fun e => ?_)
    subst e
    refine hinst k0 c0 x hm hc0 (base_eq_of_epoch w hi hh m k0 x c0 hm hc0 he0 hcase) (fun ek => ?_)
    subst ek
    rw [hc] at hc0; cases hc0
    exact hnr0 hr

/-- members only move down the tree of states: whatever a step does, a member's new state descends
from its old one -/
theorem step_descends (w : World) (op : Op) (hi : Inv w) (hh : Hist w) (m : Nat) (x x' : Member)
    (hm : w.members[m]? = some x) (hm' : (step w op).1.members[m]? = some x') :
    Anc (step w op).1.commits x.cur x'.cur := by
  by_cases hne : x'.cur = x.cur
  · rw [hne]; exact .refl _
  · obtain ⟨k, c, hc, hb, hk, _⟩ := moves_follow_commits w op hi hh m x x' hm hm' hne
    rw [hk]
    exact .up _ k c (step_commits_get w op k c hc) (hb ▸ .refl _)

/-- A member removed by commit `k` stays outside the part of the state tree below `k+1` along every
run, together with the base of every commit it builds from now on; and the members that are in that
part stay in it. -/
theorem removed_member_exiled (w : World) (ops : List Op) (k r : Nat) (c : Commit) (x : Member)
    (hi : Inv w) (hh : Hist w) (hc : w.commits[k]? = some c) (hr : c.kind.removes = some r)
    (hx : w.members[r]? = some x) (hout : ¬ Anc w.commits (k + 1) x.cur) :
    (∀ x', (run w ops).1.members[r]? = some x' → ¬ Anc (run w ops).1.commits (k + 1) x'.cur) ∧
    (∀ (k' : Nat) (c' : Commit), w.commits.length ≤ k' → (run w ops).1.commits[k']? = some c' →
      c'.author = r → ¬ Anc (run w ops).1.commits (k + 1) c'.base) ∧
    (∀ (q : Nat) (y : Member), w.members[q]? = some y → Anc w.commits (k + 1) y.cur →
      ∃ y' : Member, (run w ops).1.members[q]? = some y' ∧
        Anc (run w ops).1.commits (k + 1) y'.cur) := by
  have hex : ∀ (ops : List Op) (w : World) (n0 : Nat), Inv w → Hist w → w.commits[k]? = some c →
      Exiled w k r n0 → Exiled (run w ops).1 k r n0 := by
    intro ops
    induction ops with
    | nil => intro w n0 _ _ _ he; exact he
    | cons op ops ih =>
      intro w n0 hi hh hc he
      rw [run_cons]
      exact ih _ n0 (inv_step w op hi) (hist_step w op hi hh) (step_commits_get w op k c hc)
        (exiled_step w op k r n0 c hi hh hc hr he)
  have hin : ∀ (ops : List Op) (w : World) (q : Nat) (y : Member), Inv w → Hist w →
      w.members[q]? = some y → Anc w.commits (k + 1) y.cur →
      ∃ y' : Member, (run w ops).1.members[q]? = some y' ∧
        Anc (run w ops).1.commits (k + 1) y'.cur := by
    intro ops
    induction ops with
    | nil => intro w q y _ _ hy ha; exact ⟨y, hy, ha⟩
    | cons op ops ih =>
      intro w q y hi hh hy ha
      obtain ⟨y1, hy1, _⟩ := step_member w op hi q y hy
      rw [run_cons]
      exact ih _ q y1 (inv_step w op hi) (hist_step w op hi hh) hy1
        ((ha.mono (step_commits_get w op)).trans (step_descends w op hi hh q y y1 hy hy1))
  have he0 : Exiled w k r w.commits.length :=
    ⟨fun z hz => by rw [hx] at hz; cases hz; exact hout, fun k' c' hk hc' _ => by
      have := getElem?_lt _ _ _ hc'; omega⟩
  have he := hex ops w _ hi hh hc he0
  exact ⟨he.cur_out, he.commits_out, fun q y hy ha => hin ops w q y hi hh hy ha⟩

/-- The commits of a removed member are never accepted by a member that processed the removing commit.
Let commit `k` remove `r`, let `r` be in a state created before commit `k` (for instance on its base —
whether or not `r` has processed the commit, it stays there), and let `q` be in state `k+1` or below it.
Then after any run, `q` refuses every commit that `r` built during the run, and nothing changes. -/
theorem removed_member_never_accepted (w : World) (ops : List Op) (k r q : Nat) (c : Commit)
    (x y : Member) (hi : Inv w) (hh : Hist w) (hc : w.commits[k]? = some c)
    (hr : c.kind.removes = some r) (hx : w.members[r]? = some x) (hxk : x.cur ≤ k)
    (hy : w.members[q]? = some y) (hyk : Anc w.commits (k + 1) y.cur) :
    ∀ (k' : Nat) (c' : Commit), w.commits.length ≤ k' → (run w ops).1.commits[k']? = some c' →
      c'.author = r →
      (step (run w ops).1 (.deliver q k')).2 ≠ .ok ∧
      (step (run w ops).1 (.deliver q k')).1 = (run w ops).1 := by
  intro k' c' hk hc' ha
  have hout : ¬ Anc w.commits (k + 1) x.cur := fun h => by
    have := h.le hi.commitsWF; omega
  obtain ⟨_, h2, h3⟩ := removed_member_exiled w ops k r c x hi hh hc hr hx hout
  obtain ⟨y', hy', hanc⟩ := h3 q y hy hyk
  exact outside_commit_rejected _ q k k' y' c' (inv_run w ops hi) hy' hanc hc' (h2 k' c' hk hc' ha)

/-! ### re-init freeze -/

/-- a member is frozen exactly when it is in a state reached by a reinit commit -/
theorem frozen_iff_reinit (w : World) (hi : Inv w) (m : Nat) (x : Member)
    (hm : w.members[m]? = some x) :
    x.frozen = true ↔ ∃ k c, x.cur = k + 1 ∧ w.commits[k]? = some c ∧ c.kind.reinit = true := by
  rw [hi.frozen_wf m x hm]; exact stateReinit_iff _ _

/-- Whichever way a member installs a commit (`apply`, `applyDet`, the echo, processing it): it is
frozen afterwards iff the commit is a reinit commit, and has no pending commit. -/
theorem move_freezes_iff_reinit (w : World) (op : Op) (hi : Inv w) (hh : Hist w) (m : Nat)
    (x x' : Member) (hm : w.members[m]? = some x) (hm' : (step w op).1.members[m]? = some x')
    (hne : x'.cur ≠ x.cur) :
    ∃ k c, w.commits[k]? = some c ∧ x'.cur = k + 1 ∧ x'.frozen = c.kind.reinit ∧
      x'.pending = none := by
  obtain ⟨k, c, hc, _, hk, he⟩ := moves_follow_commits w op hi hh m x x' hm hm' hne
  exact ⟨k, c, hc, hk, by rw [he]; rfl, by rw [he]; rfl⟩

/-- applying a pending reinit commit freezes the committer; processing it freezes the receiver -/
theorem reinit_commit_freezes (w : World) (m k : Nat) (x : Member) (hi : Inv w)
    (hm : w.members[m]? = some x) (hp : x.pending = some k) :
    ∃ c, w.commits[k]? = some c ∧ (c.kind.reinit = true →
      (step w (.apply m)).1.members[m]? = some ⟨k + 1, none, true⟩ ∧
      (step w (.deliver m k)).1.members[m]? = some ⟨k + 1, none, true⟩ ∧
      ∀ r y, r ≠ m → w.members[r]? = some y → y.cur = c.base → c.kind.removes ≠ some r →
        (step w (.deliver r k)).1.members[r]? = some ⟨k + 1, none, true⟩) := by
  obtain ⟨c, hc, _, _, h1, h2, h3, _, _, h4⟩ := apply_eq_receivers w m k x hi hm hp
  refine ⟨c, hc, fun hre => ?_⟩
  have hin : install k c = ⟨k + 1, none, true⟩ := by simp only [install, hre]
  refine ⟨by rw [h1, ← hin]; exact h3, by rw [h2, ← hin]; exact h3, fun r y hr hy hcur hrem => ?_⟩
  obtain ⟨h5, h6⟩ := h4 r y hr hy hcur hrem
  rw [h5, ← hin]; exact h6

/-- A frozen member can neither build nor apply nor process anything: every operation of a frozen
member other than `clear` fails and changes nothing.  `build` gives `groupUsedAfterReInit` (a frozen
member has no pending commit, so `existingPendingCommit` does not come first), `apply` finds no pending
commit, `deliver` and `applyDet` give `groupUsedAfterReInit` or one of the errors checked before it. -/
theorem frozen_rejects (w : World) (hi : Inv w) (m : Nat) (x : Member)
    (hm : w.members[m]? = some x) (hf : x.frozen = true) :
    (∀ d kd, step w (.build m d kd) = (w, .groupUsedAfterReInit)) ∧
    step w (.apply m) = (w, .pendingCommitNotFound) ∧
    (∀ k, (step w (.deliver m k)).1 = w ∧
      ((step w (.deliver m k)).2 = .groupUsedAfterReInit ∨ (step w (.deliver m k)).2 = .invalidEpoch ∨
       (step w (.deliver m k)).2 = .cantProcessMessageFromSelf ∨ (step w (.deliver m k)).2 = .badOp)) ∧
    (∀ k, (step w (.applyDet m k)).1 = w ∧
      ((step w (.applyDet m k)).2 = .groupUsedAfterReInit ∨ (step w (.applyDet m k)).2 = .invalidEpoch ∨
       (step w (.applyDet m k)).2 = .badOp)) := by
  have hp := hi.frozen_pending m x hm hf
  refine ⟨fun d kd => step_build_frozen w m x d kd hm hp hf, step_apply_none w m x hm hp,
    fun k => ?_, fun k => ?_⟩
  · cases hc : w.commits[k]? with
    | none => rw [step_deliver_bad w m k (.inr hc)]; simp
    | some c =>
      have hpk : x.pending ≠ some k := by rw [hp]; exact fun h => by cases h
      by_cases he : w.epoch c.base = w.epoch x.cur
      · by_cases ha : c.author = m ∧ c.kind.hasPath = true
        · rw [step_deliver_self w m k x c hm hc hpk he ha.1 ha.2]; simp
        · by_cases hb : c.base = x.cur
          · rw [step_deliver_frozen w m k x c hm hc hpk ha hb hf]; simp
          · rw [step_deliver_branch w m k x c hm hc hpk he ha hb]; simp
      · rw [step_deliver_stale w m k x c hm hc hpk he]; simp
  · cases hc : w.commits[k]? with
    | none => rw [step_applyDet_bad w m k (.inr hc)]; simp
    | some c =>
      by_cases ha : c.author = m
      · by_cases he : w.epoch c.base = w.epoch x.cur
        · rw [step_applyDet_frozen w m k x c hm hc ha he hf]; simp
        · rw [step_applyDet_stale w m k x c hm hc ha he]; simp
      · rw [step_applyDet_author w m k x c hm hc ha]; simp

/-- In a reachable world the check `groupUsedAfterReInit` of `deliver` / `applyDet` is never the one
that fires: nobody builds on a reinit state, so every commit offered to a frozen member is for another
epoch or another branch and is refused with `invalidEpoch`. -/
theorem frozen_gets_invalidEpoch (w : World) (hi : Inv w) (hh : Hist w) (m k : Nat) (x : Member)
    (c : Commit) (hm : w.members[m]? = some x) (hf : x.frozen = true)
    (hc : w.commits[k]? = some c) :
    step w (.deliver m k) = (w, .invalidEpoch) ∧
    (c.author = m → step w (.applyDet m k) = (w, .invalidEpoch)) := by
  have hp := hi.frozen_pending m x hm hf
  have hpk : x.pending ≠ some k := by rw [hp]; exact fun h => by cases h
  have hbne : c.base ≠ x.cur := fun hb => by
    have := hi.on_base_not_frozen m k x c hm hc hb
    rw [hf] at this; cases this
  refine ⟨?_, fun ha => ?_⟩
  · by_cases he : w.epoch c.base = w.epoch x.cur
    · by_cases ha : c.author = m ∧ c.kind.hasPath = true
      · exact absurd (base_eq_of_epoch w hi hh m k x c hm hc he (.inl ha.1)) hbne
      · exact step_deliver_branch w m k x c hm hc hpk he ha hbne
    · exact step_deliver_stale w m k x c hm hc hpk he
  · by_cases he : w.epoch c.base = w.epoch x.cur
    · exact absurd (base_eq_of_epoch w hi hh m k x c hm hc he (.inl ha)) hbne
    · exact step_applyDet_stale w m k x c hm hc ha he

/-- no step changes a frozen member (not even its own `clear`: it has no pending commit) -/
theorem frozen_step_fixed (w : World) (op : Op) (hi : Inv w) (m : Nat) (x : Member)
    (hm : w.members[m]? = some x) (hf : x.frozen = true) :
    (step w op).1.members[m]? = some x := by
  have hp := hi.frozen_pending m x hm hf
  have hx : ({ x with pending := none } : Member) = x := by
    cases x; simp only at hp; subst hp; rfl
  have h := step_shape w op
  generalize step w op = r at h
  cases h with
  | err r hne => exact hm
  | buildDet m0 x0 kd hop hm0 hp0 hf0 hv => exact hm
  | buildAtt m0 x0 kd hop hm0 hp0 hf0 hv =>
    by_cases e : m = m0
    · subst e; rw [hm] at hm0; cases hm0; rw [hf] at hf0; cases hf0
    · rw [setMember_get_ne _ m0 m _ e]; exact hm
  | clear m0 x0 hop hm0 =>
    by_cases e : m = m0
    · subst e; rw [hm] at hm0; cases hm0
      rw [hx]; exact setMember_get_self w m x x hm
    · rw [setMember_get_ne _ m0 m _ e]; exact hm
  | removed m0 k x0 c hop hm0 hc hp0 hb hf0 hr =>
    by_cases e : m = m0
    · subst e; rw [hm] at hm0; cases hm0; rw [hf] at hf0; cases hf0
    · rw [setMember_get_ne _ m0 m _ e]; exact hm
  | own m0 k x0 c hop hm0 hp0 hc =>
    by_cases e : m = m0
    · subst e; rw [hm] at hm0; cases hm0; rw [hp] at hp0; cases hp0
    · rw [setMember_get_ne _ m0 m _ e]; exact hm
  | move m0 k x0 c hop hm0 hc he hcase hf0 hnr =>
    by_cases e : m = m0
    · subst e; rw [hm] at hm0; cases hm0; rw [hf] at hf0; cases hf0
    · rw [setMember_get_ne _ m0 m _ e]; exact hm

/-- Once frozen, forever the same: after a member has installed a reinit commit, no sequence of
operations (its own or anybody's) changes its state, its epoch or anything else about it. -/
theorem frozen_forever (w : World) (ops : List Op) (hi : Inv w) (m : Nat) (x : Member)
    (hm : w.members[m]? = some x) (hf : x.frozen = true) :
    (run w ops).1.members[m]? = some x := by
  induction ops generalizing w with
  | nil => exact hm
  | cons op ops ih =>
    rw [run_cons]
    exact ih _ (inv_step w op hi) (frozen_step_fixed w op hi m x hm hf)

/-! ### non-vacuity: concrete scenarios -/

/-- three members; 0 and 1 each build a commit on the initial state -/
def wA : World := (run (init 3) [.build 0 false {}, .build 1 false {}]).1

example : Inv wA := inv_reachable 3 _
example : wA.members = [⟨0, some 0, false⟩, ⟨0, some 1, false⟩, ⟨0, none, false⟩] := by decide
example : wA.commits = [⟨0, 0, {}⟩, ⟨1, 0, {}⟩] := by decide

-- building did not move anybody; second build refused; errors change nothing
example : (step wA (.build 0 true {})).2 = .existingPendingCommit := by decide
example : (step wA (.build 0 true {})).2 ≠ .ok := by decide
example : (step wA (.build 2 false {})).2 = .ok := by decide
example : (step wA (.build 2 false {})).1.members = [⟨0, some 0, false⟩, ⟨0, some 1, false⟩, ⟨0, some 2, false⟩] := by decide
example : (step wA (.build 2 true {})).1.members = wA.members := by decide
example : (step wA (.apply 2)).2 = .pendingCommitNotFound := by decide
example : (step wA (.apply 7)).2 = .badOp := by decide

-- clear restores
example : (run (init 3) [.build 0 false {}, .clear 0]).1.members = (init 3).members := by decide
example : (run (init 3) [.build 0 false {}, .clear 0, .build 0 false {}]).2 = [.ok, .ok, .ok] := by decide

-- committer and receivers agree: member 0 applies commit 0, member 2 receives it, member 1 (who had
-- its own pending commit) receives it and loses its pending commit
example : (run wA [.apply 0, .deliver 2 0, .deliver 1 0]).2 = [.ok, .ok, .ok] := by decide
example : (run wA [.apply 0, .deliver 2 0, .deliver 1 0]).1.members =
    [⟨1, none, false⟩, ⟨1, none, false⟩, ⟨1, none, false⟩] := by decide
example : (run wA [.deliver 0 0]).1.members = (run wA [.apply 0]).1.members := by decide
-- hypotheses of `apply_eq_receivers` on `wA`: member 0 has pending 0; member 2 is on its base
example : wA.members[0]? = some ⟨0, some 0, false⟩ ∧ wA.members[2]? = some ⟨0, none, false⟩ ∧
    wA.commits[0]? = some ⟨0, 0, {}⟩ := by decide

/-- the two committers both apply: a fork into states 1 and 2, both of epoch 1; then member 1 builds
commit 2 on state 2 and member 0 builds the detached commit 3 on state 1 -/
def wB : World := (run wA [.apply 0, .apply 1, .build 1 false {}, .build 0 true {}]).1

example : Inv wB := inv_run _ _ (inv_reachable 3 _)
example : Hist wB := hist_run _ _ (inv_reachable 3 _) (hist_reachable 3 _)
example : wB.members = [⟨1, none, false⟩, ⟨2, some 2, false⟩, ⟨0, none, false⟩] := by decide
example : wB.commits = [⟨0, 0, {}⟩, ⟨1, 0, {}⟩, ⟨1, 2, {}⟩, ⟨0, 1, {}⟩] := by decide
example : wB.epoch 0 = 0 ∧ wB.epoch 1 = 1 ∧ wB.epoch 2 = 1 ∧ wB.epoch 3 = 2 ∧ wB.epoch 4 = 2 := by decide
-- a commit for another epoch: refused (member 2 is still in epoch 0, commit 2 is built on epoch 1)
example : wB.epoch 2 ≠ wB.epoch 0 ∧ (step wB (.deliver 2 2)).2 = .invalidEpoch := by decide
-- same epoch number, other branch: refused
example : wB.epoch 2 = wB.epoch 1 ∧ (step wB (.deliver 0 2)).2 = .invalidEpoch := by decide
-- own commit that is not pending: refused
example : (step wB (.deliver 0 3)).2 = .cantProcessMessageFromSelf := by decide
-- detached commit: applicable now ...
example : (step wB (.applyDet 0 3)).2 = .ok ∧
    (step wB (.applyDet 0 3)).1.members[0]? = some ⟨4, none, false⟩ := by decide
-- ... but stale once member 0 has moved on (here: by a commit of its own)
example : (run wB [.build 0 false {}, .apply 0, .applyDet 0 3]).2 = [.ok, .ok, .invalidEpoch] := by decide
example : (run wB [.build 0 false {}, .apply 0, .applyDet 0 3]).1.members[0]? = some ⟨5, none, false⟩ := by
  decide
-- `stale_detached_rejected` needs `c.author = m`: the author guard of the model comes first, so commit
-- secrets of somebody else's commit from another epoch give `badOp`, not `invalidEpoch`
example : wB.commits[2]? = some ⟨1, 2, {}⟩ ∧ wB.members[2]? = some ⟨0, none, false⟩ ∧ wB.epoch 2 ≠ wB.epoch 0 ∧
    (step wB (.applyDet 2 2)).2 = .badOp := by decide
-- epochs move by one: member 0 goes 0 → 1 → 2 → 3
example : (run wB [.build 0 false {}, .apply 0]).1.epoch 5 = wB.epoch 1 + 1 := by decide
example : (run wB [.applyDet 0 3, .build 0 false {}, .apply 0]).1.epoch 5 = 3 := by decide

/-! #### own commits without an update path -/

/-- a commit without update path (Add-only / PSK-only) -/
def noPath : Kind := { hasPath := false }

-- member 0 builds a path-less commit, clears it, and then receives it as a message: processed like
-- anybody else's (check (c) needs `hasPath`); member 1 receives it too and reaches the same record
example : (run (init 3) [.build 0 false noPath, .clear 0, .deliver 0 0, .deliver 1 0]).2 =
    [.ok, .ok, .ok, .ok] := by decide
example : (run (init 3) [.build 0 false noPath, .clear 0, .deliver 0 0, .deliver 1 0]).1.members =
    [⟨1, none, false⟩, ⟨1, none, false⟩, ⟨0, none, false⟩] := by decide
-- ... the same record `apply` gives
example : (run (init 3) [.build 0 false noPath, .clear 0, .deliver 0 0]).1.members =
    (run (init 3) [.build 0 false noPath, .apply 0]).1.members := by decide
-- the same with an update path: refused, nothing changes
example : (run (init 3) [.build 0 false {}, .clear 0, .deliver 0 0]).2 =
    [.ok, .ok, .cantProcessMessageFromSelf] := by decide
example : (run (init 3) [.build 0 false {}, .clear 0, .deliver 0 0]).1.members = (init 3).members := by
  decide
-- a detached path-less own commit is processed as well, and discards the pending commit built meanwhile
example : (run (init 3) [.build 0 true noPath, .build 0 false {}, .deliver 0 0]).2 = [.ok, .ok, .ok] ∧
    (run (init 3) [.build 0 true noPath, .build 0 false {}, .deliver 0 0]).1.members[0]? =
      some ⟨1, none, false⟩ := by decide
-- the epoch check (b) comes before the own-commit check (c): a stale own commit gives `invalidEpoch`,
-- with or without path
example : (run (init 3) [.build 0 true noPath, .build 0 true {}, .build 0 false {}, .apply 0,
    .deliver 0 0, .deliver 0 1]).2 = [.ok, .ok, .ok, .ok, .invalidEpoch, .invalidEpoch] := by decide
-- hypotheses of `own_commit_after_clear` / `own_pathless_processed`
example : (run (init 3) [.build 0 false noPath]).1.members[0]? = some ⟨0, some 0, false⟩ ∧
    (run (init 3) [.build 0 false noPath]).1.commits[0]? = some ⟨0, 0, noPath⟩ := by decide

/-! #### commits that remove the receiver -/

/-- member 1 has a pending commit (0); member 0 builds commit 1 removing member 1 and applies it -/
def wR : World := (run (init 3) [.build 1 false {}, .build 0 false { removes := some 1 }, .apply 0]).1

example : Inv wR := inv_reachable 3 _
example : Hist wR := hist_reachable 3 _
example : wR.members = [⟨2, none, false⟩, ⟨0, some 0, false⟩, ⟨0, none, false⟩] := by decide
example : wR.commits = [⟨1, 0, {}⟩, ⟨0, 0, { removes := some 1 }⟩] := by decide
-- the removed member processes the commit: ok, it stays in state 0 / epoch 0, its pending commit is gone
example : (step wR (.deliver 1 1)).2 = .ok ∧
    (step wR (.deliver 1 1)).1.members[1]? = some ⟨0, none, false⟩ ∧
    (step wR (.deliver 1 1)).1.epoch 0 = 0 := by decide
-- ... so a following `apply` finds nothing
example : (run wR [.deliver 1 1, .apply 1]).2 = [.ok, .pendingCommitNotFound] := by decide
-- the other receiver moves to state 2 like the committer
example : (run wR [.deliver 1 1, .deliver 2 1]).1.members =
    [⟨2, none, false⟩, ⟨0, none, false⟩, ⟨2, none, false⟩] := by decide
-- the removed member is not frozen: it builds commit 2 on its stale state and even applies it; the
-- members that processed the removal refuse it (epoch 0 ≠ epoch 1), and they refuse the commit it
-- builds on top (same epoch number 1, other branch)
example : (run wR [.deliver 1 1, .deliver 2 1, .build 1 false {}, .deliver 0 2, .deliver 2 2, .apply 1,
    .build 1 false {}, .deliver 0 3, .deliver 2 3]).2 =
    [.ok, .ok, .ok, .invalidEpoch, .invalidEpoch, .ok, .ok, .invalidEpoch, .invalidEpoch] := by decide
example : (run wR [.deliver 1 1, .deliver 2 1, .build 1 false {}, .apply 1, .build 1 false {}]).1.epoch 3
    = (run wR [.deliver 1 1, .deliver 2 1, .build 1 false {}, .apply 1, .build 1 false {}]).1.epoch 2 := by
  decide
-- a member still in state 0 that has not seen the removal does accept the removed member's commit
example : (run wR [.deliver 1 1, .build 1 false {}, .deliver 2 2]).2 = [.ok, .ok, .ok] := by decide
-- a commit cannot remove its author or somebody who is not there
example : (step (init 3) (.build 0 false { removes := some 0 })).2 = .badOp ∧
    (step (init 3) (.build 0 true { removes := some 3 })).2 = .badOp ∧
    (step (init 3) (.build 0 true { removes := some 2 })).2 = .ok := by decide
-- hypotheses of `removed_receiver_stays` / `removed_member_never_accepted` on `wR` (k = 1, r = 1, q = 0)
example : wR.commits[1]? = some ⟨0, 0, { removes := some 1 }⟩ ∧ wR.members[1]? = some ⟨0, some 0, false⟩ ∧
    wR.members[0]? = some ⟨2, none, false⟩ := by decide
example : Anc wR.commits (1 + 1) 2 := .refl _

/-! #### re-init freeze -/

/-- a reinit commit without update path -/
def reinitK : Kind := { hasPath := false, reinit := true }

/-- member 0 builds a reinit commit and applies it; member 1 processes it -/
def wI : World := (run (init 3) [.build 0 false reinitK, .apply 0, .deliver 1 0]).1

example : Inv wI := inv_reachable 3 _
example : Hist wI := hist_reachable 3 _
example : wI.members = [⟨1, none, true⟩, ⟨1, none, true⟩, ⟨0, none, false⟩] := by decide
-- the echo freezes as well
example : (run (init 3) [.build 0 false reinitK, .deliver 0 0]).1.members[0]? = some ⟨1, none, true⟩ := by
  decide
-- and so does a detached reinit commit
example : (run (init 3) [.build 0 true reinitK, .applyDet 0 0]).1.members[0]? = some ⟨1, none, true⟩ := by
  decide
-- frozen members cannot build (committer and receiver alike), have nothing to apply; `clear` is a no-op
example : (run wI [.build 0 false {}, .build 1 true noPath, .apply 0, .clear 0]).2 =
    [.groupUsedAfterReInit, .groupUsedAfterReInit, .pendingCommitNotFound, .ok] := by decide
example : (run wI [.build 0 false {}, .build 1 true noPath, .apply 0, .clear 0]).1.members = wI.members := by
  decide
-- member 2 is still in state 0 and builds commit 1 there: the frozen members refuse it on the epoch
example : (run wI [.build 2 false {}, .deliver 0 1, .deliver 1 1, .apply 2]).2 =
    [.ok, .invalidEpoch, .invalidEpoch, .ok] := by decide
example : (run wI [.build 2 false {}, .deliver 0 1, .deliver 1 1, .apply 2]).1.members =
    [⟨1, none, true⟩, ⟨1, none, true⟩, ⟨2, none, false⟩] := by decide
-- an ordinary commit after a reinit commit un-freezes nobody, because nobody can move: but a member that
-- never installed the reinit commit goes on, not frozen
example : (run wI [.build 2 false {}, .apply 2, .build 2 false {}]).2 = [.ok, .ok, .ok] := by decide

/-- The branches of the model that no reachable world exercises (`frozen_gets_invalidEpoch`, and
`Inv.frozen_pending`): a frozen member *with* a pending commit, and commits built on a reinit state.
This hand-made world is not reachable (`¬ Inv`); it shows the order of the checks. -/
def wF : World :=
  { members := [⟨1, some 1, true⟩, ⟨1, none, true⟩]
    commits := [⟨0, 0, reinitK⟩, ⟨0, 1, {}⟩, ⟨0, 1, noPath⟩] }

example : ¬ Inv wF := fun h => by
  have := h.frozen_pending 0 ⟨1, some 1, true⟩ rfl rfl
  cases this
-- `existingPendingCommit` is checked before `groupUsedAfterReInit`
example : (step wF (.build 0 false {})).2 = .existingPendingCommit := by decide
example : (run wF [.clear 0, .build 0 false {}]).2 = [.ok, .groupUsedAfterReInit] := by decide
-- `deliver` to a frozen member of a commit that passes checks (a)–(d): somebody else's, or an own one
-- without path (an own one with path stops at (c))
example : (step wF (.deliver 1 1)).2 = .groupUsedAfterReInit ∧
    (step wF (.deliver 0 2)).2 = .groupUsedAfterReInit ∧
    (run wF [.clear 0, .deliver 0 1]).2 = [.ok, .cantProcessMessageFromSelf] := by decide
-- (a) comes first: the echo of the pending commit is installed even here
example : (step wF (.deliver 0 1)).2 = .ok := by decide
-- `applyDet` on a frozen member: after the author and epoch checks
example : (step wF (.applyDet 0 2)).2 = .groupUsedAfterReInit ∧ (step wF (.applyDet 1 2)).2 = .badOp ∧
    (step wF (.applyDet 0 0)).2 = .invalidEpoch := by decide

end MlsVerif.Props.C11
