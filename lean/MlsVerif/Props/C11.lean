/-
C11 — pending commits do not change the group until applied; one successor per epoch.

Property theorems about the pending-commit state machine `MlsVerif.Pending.step`.  The invariant `Inv`
and the helper lemmas live in `MlsVerif.Proofs.Pending`.  All statements hold for all worlds, members,
commit numbers and operation lists (no bounds).
-/
import MlsVerif.Proofs.Pending

namespace MlsVerif.Props.C11
open MlsVerif.Pending

/-! ### the invariant holds in every reachable world -/

/-- `Inv w` (see `MlsVerif.Pending.Inv`):
* every commit `k` has `base ≤ k` (state `k+1` is created after its base) and an author that is a member,
* every member is in an existing state (`cur ≤ commits.length`),
* a pending commit `k` of member `m` is a commit by `m` built on `m`'s current state. -/
theorem inv_iff (w : World) :
    Inv w ↔
      (∀ (k : Nat) (c : Commit), w.commits[k]? = some c → c.base ≤ k ∧ c.author < w.members.length) ∧
      (∀ (m : Nat) (x : Member), w.members[m]? = some x → x.cur ≤ w.commits.length) ∧
      (∀ (m : Nat) (x : Member) (k : Nat), w.members[m]? = some x → x.pending = some k →
        ∃ c, w.commits[k]? = some c ∧ c.author = m ∧ c.base = x.cur) :=
  ⟨fun h => ⟨h.commit_wf, h.cur_le, h.pending_wf⟩, fun ⟨a, b, c⟩ => ⟨a, b, c⟩⟩

theorem inv_init (n : Nat) : Inv (init n) where
  commit_wf k c h := by simp [init] at h
  cur_le m x h := by
    simp only [init, List.getElem?_replicate] at h
    split at h
    · cases h; exact Nat.zero_le _
    · cases h
  pending_wf m x k h hk := by
    simp only [init, List.getElem?_replicate] at h
    split at h
    · cases h; cases hk
    · cases h

theorem inv_step (w : World) (op : Op) (hi : Inv w) : Inv (step w op).1 := by
  have h := step_shape w op
  generalize step w op = r at h
  cases h with
  | err r hne => exact hi
  | buildDet m x hop hm hp => exact hi.addCommit _ (hi.cur_le m x hm) (getElem?_lt _ _ _ hm)
  | buildAtt m x hop hm hp =>
    refine (hi.addCommit ⟨m, x.cur⟩ (hi.cur_le m x hm) (getElem?_lt _ _ _ hm)).setMember m _ ?_ ?_
    · have := hi.cur_le m x hm
      simp only [addCommit_commits, List.length_append, List.length_singleton]; omega
    · intro k hk
      simp only [Option.some.injEq] at hk
      subst hk
      exact ⟨_, addCommit_get_last w _, rfl, rfl⟩
  | clear m x hop hm => exact hi.setMember m _ (hi.cur_le m x hm) (fun k hk => by cases hk)
  | own m k x hop hm hp =>
    obtain ⟨c, hc, _, _⟩ := hi.pending_wf m x k hm hp
    exact hi.setMember m _ (getElem?_lt _ _ _ hc) (fun k hk => by cases hk)
  | move m k x c hop hm hc he hcase =>
    exact hi.setMember m _ (getElem?_lt _ _ _ hc) (fun k hk => by cases hk)

/-- the invariant holds after any sequence of operations -/
theorem inv_run (w : World) (ops : List Op) (hi : Inv w) : Inv (run w ops).1 := by
  induction ops generalizing w with
  | nil => exact hi
  | cons op ops ih => rw [run_cons]; exact ih _ (inv_step w op hi)

/-- every world reachable from an initial world satisfies the invariant -/
theorem inv_reachable (n : Nat) (ops : List Op) : Inv (run (init n) ops).1 :=
  inv_run _ _ (inv_init n)

/-- no step adds or removes members -/
theorem step_members_length (w : World) (op : Op) :
    (step w op).1.members.length = w.members.length := by
  have h := step_shape w op
  generalize step w op = r at h
  cases h <;> simp

/-! ### errors change nothing -/

theorem error_leaves_world_unchanged (w : World) (op : Op) (h : (step w op).2 ≠ .ok) :
    (step w op).1 = w := by
  have hs := step_shape w op
  generalize step w op = r at hs h
  cases hs with
  | err r hne => rfl
  | _ => exact absurd rfl h

/-! ### building and clearing -/

/-- A successful `build m d` changes no member's `cur` and no other member's pending commit; it appends
exactly one commit `{author := m, base := cur m}`; a non-detached build makes that commit `m`'s pending
commit, a detached build leaves all members exactly as they were. -/
theorem build_keeps_state (w : World) (m : Nat) (d : Bool) (h : (step w (.build m d)).2 = .ok) :
    ∃ x, w.members[m]? = some x ∧ x.pending = none ∧
      (step w (.build m d)).1.commits = w.commits ++ [{ author := m, base := x.cur }] ∧
      (∀ r : Nat, ((step w (.build m d)).1.members[r]?).map Member.cur = (w.members[r]?).map Member.cur) ∧
      (∀ r : Nat, r ≠ m → (step w (.build m d)).1.members[r]? = w.members[r]?) ∧
      (d = false →
        (step w (.build m d)).1.members[m]? = some { x with pending := some w.commits.length }) ∧
      (d = true → (step w (.build m d)).1.members = w.members) := by
  cases hm : w.members[m]? with
  | none => rw [step_build_bad w m d hm] at h; cases h
  | some x =>
    cases hp : x.pending with
    | some k => rw [step_build_pending w m k x d hm hp] at h; cases h
    | none =>
      refine ⟨x, rfl, hp, ?_⟩
      cases d
      · rw [step_build_attached w m x hm hp]
        have hself := setMember_get_self (addCommit w ⟨m, x.cur⟩) m
          { x with pending := some w.commits.length } x hm
        refine ⟨rfl, fun r => ?_, fun r hr => setMember_get_ne _ m r _ hr, fun _ => hself,
          fun hd => by cases hd⟩
        by_cases hr : r = m
        · subst hr; rw [hself, hm]; rfl
        · rw [setMember_get_ne _ m r _ hr]; rfl
      · rw [step_build_detached w m x hm hp]
        exact ⟨rfl, fun r => rfl, fun r _ => rfl, fun hd => (by cases hd), fun _ => rfl⟩

/-- `build m false` then `clear m` leaves every member exactly as before the build (only the commit
list grew), and a further build then succeeds. -/
theorem clear_restores (w w1 w2 : World) (m : Nat) (h : (step w (.build m false)).2 = .ok)
    (hw1 : w1 = (step w (.build m false)).1) (hw2 : w2 = (step w1 (.clear m)).1) :
    (step w1 (.clear m)).2 = .ok ∧ w2.members = w.members ∧
      (∃ x, w.members[m]? = some x ∧ w2.commits = w.commits ++ [{ author := m, base := x.cur }]) ∧
      ∀ d, (step w2 (.build m d)).2 = .ok := by
  cases hm : w.members[m]? with
  | none => rw [step_build_bad w m false hm] at h; cases h
  | some x =>
    cases hp : x.pending with
    | some k => rw [step_build_pending w m k x false hm hp] at h; cases h
    | none =>
      rw [step_build_attached w m x hm hp] at hw1
      have hself : w1.members[m]? = some { x with pending := some w.commits.length } := by
        rw [hw1]; exact setMember_get_self (addCommit w ⟨m, x.cur⟩) m _ x hm
      have hx : ({ cur := x.cur, pending := none } : Member) = x := by
        cases x; simp only at hp; subst hp; rfl
      rw [step_clear_ok w1 m _ hself] at hw2 ⊢
      simp only [hx] at hw2
      have hmem : w2.members = w.members := by
        rw [hw2, hw1]
        simp only [setMember_members, addCommit_members, List.set_set]
        exact setMember_same w m x hm
      have hm2 : w2.members[m]? = some x := by rw [hmem]; exact hm
      refine ⟨rfl, hmem, ⟨x, rfl, by rw [hw2, hw1]; rfl⟩, fun d => ?_⟩
      cases d
      · rw [step_build_attached w2 m x hm2 hp]
      · rw [step_build_detached w2 m x hm2 hp]

/-- With a pending commit, a second build is refused and changes nothing.  (A member never holds two
pending commits: `Member.pending` is an `Option`.) -/
theorem second_build_rejected (w : World) (m k : Nat) (x : Member) (d : Bool)
    (hm : w.members[m]? = some x) (hp : x.pending = some k) :
    step w (.build m d) = (w, .existingPendingCommit) :=
  step_build_pending w m k x d hm hp

/-- `apply` without a pending commit is refused and changes nothing -/
theorem apply_without_pending_rejected (w : World) (m : Nat) (x : Member)
    (hm : w.members[m]? = some x) (hp : x.pending = none) :
    step w (.apply m) = (w, .pendingCommitNotFound) :=
  step_apply_none w m x hm hp

/-! ### applying / receiving -/

/-- exactly when `deliver m k` succeeds, and what it does -/
theorem deliver_ok_cases (w : World) (m k : Nat) (h : (step w (.deliver m k)).2 = .ok) :
    ∃ x c, w.members[m]? = some x ∧ w.commits[k]? = some c ∧
      step w (.deliver m k) = (setMember w m { cur := k + 1, pending := none }, .ok) ∧
      (x.pending = some k ∨
        (x.pending ≠ some k ∧ w.epoch c.base = w.epoch x.cur ∧ c.author ≠ m ∧ c.base = x.cur)) := by
  cases hm : w.members[m]? with
  | none => rw [step_deliver_bad w m k (.inl hm)] at h; cases h
  | some x =>
    cases hc : w.commits[k]? with
    | none => rw [step_deliver_bad w m k (.inr hc)] at h; cases h
    | some c =>
      refine ⟨x, c, rfl, rfl, ?_⟩
      by_cases hp : x.pending = some k
      · exact ⟨step_deliver_echo w m k x c hm hc hp, .inl hp⟩
      · by_cases he : w.epoch c.base = w.epoch x.cur
        · by_cases ha : c.author = m
          · rw [step_deliver_self w m k x c hm hc hp he ha] at h; cases h
          · by_cases hb : c.base = x.cur
            · exact ⟨step_deliver_ok w m k x c hm hc hp ha hb, .inr ⟨hp, he, ha, hb⟩⟩
            · rw [step_deliver_branch w m k x c hm hc hp he ha hb] at h; cases h
        · rw [step_deliver_stale w m k x c hm hc hp he] at h; cases h

/-- exactly when `applyDet m k` succeeds, and what it does -/
theorem applyDet_ok_cases (w : World) (m k : Nat) (h : (step w (.applyDet m k)).2 = .ok) :
    ∃ x c, w.members[m]? = some x ∧ w.commits[k]? = some c ∧
      step w (.applyDet m k) = (setMember w m { cur := k + 1, pending := none }, .ok) ∧
      c.author = m ∧ w.epoch c.base = w.epoch x.cur := by
  cases hm : w.members[m]? with
  | none => rw [step_applyDet_bad w m k (.inl hm)] at h; cases h
  | some x =>
    cases hc : w.commits[k]? with
    | none => rw [step_applyDet_bad w m k (.inr hc)] at h; cases h
    | some c =>
      refine ⟨x, c, rfl, rfl, ?_⟩
      by_cases ha : c.author = m
      · by_cases he : w.epoch c.base = w.epoch x.cur
        · exact ⟨step_applyDet_ok w m k x c hm hc ha he, ha, he⟩
        · rw [step_applyDet_stale w m k x c hm hc ha he] at h; cases h
      · rw [step_applyDet_author w m k x c hm hc ha] at h; cases h

/-- The committer and the receivers reach the same state.  If `m` has the pending commit `k`, then
`apply m` and the own echo `deliver m k` both succeed and put `m` in state `k+1` with no pending commit;
and for every other member `r` that is in the state the commit was built on, `deliver r k` succeeds and
puts `r` in the same state `k+1`. -/
theorem apply_eq_receivers (w : World) (m k : Nat) (x : Member) (hi : Inv w)
    (hm : w.members[m]? = some x) (hp : x.pending = some k) :
    ∃ c, w.commits[k]? = some c ∧ c.author = m ∧ c.base = x.cur ∧
      step w (.apply m) = (setMember w m { cur := k + 1, pending := none }, .ok) ∧
      step w (.deliver m k) = (setMember w m { cur := k + 1, pending := none }, .ok) ∧
      (setMember w m { cur := k + 1, pending := none }).members[m]? =
        some { cur := k + 1, pending := none } ∧
      ∀ r y, r ≠ m → w.members[r]? = some y → y.cur = c.base →
        step w (.deliver r k) = (setMember w r { cur := k + 1, pending := none }, .ok) ∧
        (setMember w r { cur := k + 1, pending := none }).members[r]? =
          some { cur := k + 1, pending := none } := by
  obtain ⟨c, hc, ha, hb⟩ := hi.pending_wf m x k hm hp
  refine ⟨c, hc, ha, hb, step_apply_ok w m k x hm hp, step_deliver_echo w m k x c hm hc hp,
    setMember_get_self w m _ x hm, fun r y hr hy hcur => ⟨?_, setMember_get_self w r _ y hy⟩⟩
  by_cases hpr : y.pending = some k
  · exact step_deliver_echo w r k y c hy hc hpr
  · exact step_deliver_ok w r k y c hy hc hpr (fun e => hr (ha ▸ e).symm) hcur.symm

/-- A successful `deliver m k` puts `m` in state `k+1` and leaves it without a pending commit: a
received commit discards whatever was pending. -/
theorem foreign_discards_pending (w : World) (m k : Nat) (h : (step w (.deliver m k)).2 = .ok) :
    ∃ x', (step w (.deliver m k)).1.members[m]? = some x' ∧ x'.pending = none ∧ x'.cur = k + 1 := by
  obtain ⟨x, c, hm, _, hs, _⟩ := deliver_ok_cases w m k h
  rw [hs]
  exact ⟨_, setMember_get_self w m _ x hm, rfl, rfl⟩

/-- the other members are not touched by `deliver m k` -/
theorem deliver_others_unchanged (w : World) (m k r : Nat) (hr : r ≠ m) :
    (step w (.deliver m k)).1.members[r]? = w.members[r]? := by
  by_cases h : (step w (.deliver m k)).2 = .ok
  · obtain ⟨x, c, _, _, hs, _⟩ := deliver_ok_cases w m k h
    rw [hs]; exact setMember_get_ne w m r _ hr
  · rw [error_leaves_world_unchanged w _ h]

/-- Commits are accepted for the current state only.  Under the invariant a successful `deliver m k`
means that commit `k` was built on the state `m` is in; and a commit from another epoch that is not
`m`'s own pending commit is refused with `InvalidEpoch`. -/
theorem only_current_epoch (w : World) (m k : Nat) (x : Member) (c : Commit)
    (hm : w.members[m]? = some x) (hc : w.commits[k]? = some c) :
    (Inv w → (step w (.deliver m k)).2 = .ok → c.base = x.cur) ∧
    (w.epoch c.base ≠ w.epoch x.cur → x.pending ≠ some k →
      step w (.deliver m k) = (w, .invalidEpoch)) := by
  refine ⟨fun hi h => ?_, fun he hp => step_deliver_stale w m k x c hm hc hp he⟩
  obtain ⟨x', c', hm', hc', _, hcase⟩ := deliver_ok_cases w m k h
  rw [hm] at hm'; rw [hc] at hc'
  cases hm'; cases hc'
  rcases hcase with hp | ⟨_, _, _, hb⟩
  · obtain ⟨c'', hc'', _, hb⟩ := hi.pending_wf m x k hm hp
    rw [hc] at hc''; cases hc''; exact hb
  · exact hb

/-- same epoch number, other branch: refused as well -/
theorem other_branch_rejected (w : World) (m k : Nat) (x : Member) (c : Commit)
    (hm : w.members[m]? = some x) (hc : w.commits[k]? = some c) (hp : x.pending ≠ some k)
    (hb : c.base ≠ x.cur) : (step w (.deliver m k)).2 ≠ .ok ∧ (step w (.deliver m k)).1 = w := by
  have hne : (step w (.deliver m k)).2 ≠ .ok := fun h => by
    obtain ⟨x', c', hm', hc', _, hcase⟩ := deliver_ok_cases w m k h
    rw [hm] at hm'; rw [hc] at hc'
    cases hm'; cases hc'
    rcases hcase with hp' | ⟨_, _, _, hb'⟩
    · exact hp hp'
    · exact hb hb'
  exact ⟨hne, error_leaves_world_unchanged w _ hne⟩

/-- Detached commit secrets of another epoch are refused with `InvalidEpoch` and nothing changes;
a successful `applyDet m k` requires equal epochs (this does not even need the invariant). -/
theorem stale_detached_rejected (w : World) (m k : Nat) (x : Member) (c : Commit)
    (hm : w.members[m]? = some x) (hc : w.commits[k]? = some c) :
    (c.author = m → w.epoch c.base ≠ w.epoch x.cur →
      step w (.applyDet m k) = (w, .invalidEpoch)) ∧
    (w.epoch c.base ≠ w.epoch x.cur →
      (step w (.applyDet m k)).2 ≠ .ok ∧ (step w (.applyDet m k)).1 = w) ∧
    ((step w (.applyDet m k)).2 = .ok → w.epoch c.base = w.epoch x.cur) := by
  have h3 : (step w (.applyDet m k)).2 = .ok → w.epoch c.base = w.epoch x.cur := fun h => by
    obtain ⟨x', c', hm', hc', _, _, he⟩ := applyDet_ok_cases w m k h
    rw [hm] at hm'; rw [hc] at hc'
    cases hm'; cases hc'; exact he
  refine ⟨fun ha he => step_applyDet_stale w m k x c hm hc ha he, fun he => ?_, h3⟩
  have hne : (step w (.applyDet m k)).2 ≠ .ok := fun h => he (h3 h)
  exact ⟨hne, error_leaves_world_unchanged w _ hne⟩

/-! ### epochs move in steps of exactly one -/

/-- what a step does to one member: either its state (and the epoch of that state) stays, or the step
succeeded and the member is now in a state exactly one epoch later -/
theorem step_member (w : World) (op : Op) (hi : Inv w) (m : Nat) (x : Member)
    (hm : w.members[m]? = some x) :
    ∃ x', (step w op).1.members[m]? = some x' ∧
      ((x'.cur = x.cur ∧ (step w op).1.epoch x'.cur = w.epoch x.cur) ∨
       ((step w op).2 = .ok ∧ x'.cur ≠ x.cur ∧
        (step w op).1.epoch x'.cur = w.epoch x.cur + 1)) := by
  have h := step_shape w op
  generalize step w op = r at h
  cases h with
  | err r hne => exact ⟨x, hm, .inl ⟨rfl, rfl⟩⟩
  | buildDet m' x0 hop hm0 hp =>
    exact ⟨x, hm, .inl ⟨rfl, addCommit_epoch w _ hi.commitsWF _ (hi.cur_le m x hm)⟩⟩
  | buildAtt m' x0 hop hm0 hp =>
    have he := addCommit_epoch w ⟨m', x0.cur⟩ hi.commitsWF _ (hi.cur_le m x hm)
    by_cases hr : m = m'
    · subst hr
      rw [hm] at hm0; cases hm0
      exact ⟨_, setMember_get_self (addCommit w _) m _ x hm, .inl ⟨rfl, he⟩⟩
    · exact ⟨x, by rw [setMember_get_ne _ m' m _ hr]; exact hm, .inl ⟨rfl, he⟩⟩
  | clear m' x0 hop hm0 =>
    by_cases hr : m = m'
    · subst hr
      rw [hm] at hm0; cases hm0
      exact ⟨_, setMember_get_self w m _ x hm, .inl ⟨rfl, rfl⟩⟩
    · exact ⟨x, by rw [setMember_get_ne _ m' m _ hr]; exact hm, .inl ⟨rfl, rfl⟩⟩
  | own m' k x0 hop hm0 hp =>
    by_cases hr : m = m'
    · subst hr
      rw [hm] at hm0; cases hm0
      obtain ⟨c, hc, _, hb⟩ := hi.pending_wf m x k hm hp
      have hbk := (hi.commit_wf k c hc).1
      refine ⟨_, setMember_get_self w m _ x hm, .inr ⟨rfl, ?_, ?_⟩⟩
      · show k + 1 ≠ x.cur
        omega
      · rw [setMember_epoch, epoch_succ w hi.commitsWF k c hc, hb]
    · exact ⟨x, by rw [setMember_get_ne _ m' m _ hr]; exact hm, .inl ⟨rfl, rfl⟩⟩
  | move m' k x0 c hop hm0 hc he hcase =>
    by_cases hr : m = m'
    · subst hr
      rw [hm] at hm0; cases hm0
      have hs : w.epoch (k + 1) = w.epoch x.cur + 1 := by
        rw [epoch_succ w hi.commitsWF k c hc, he]
      refine ⟨_, setMember_get_self w m _ x hm, .inr ⟨rfl, ?_, ?_⟩⟩
      · show k + 1 ≠ x.cur
        intro e; rw [e] at hs; omega
      · rw [setMember_epoch]; exact hs
    · exact ⟨x, by rw [setMember_get_ne _ m' m _ hr]; exact hm, .inl ⟨rfl, rfl⟩⟩

/-- Whenever a step changes `cur m` from `s` to `s'`, the step succeeded and the new state is exactly
one epoch after the old one. -/
theorem epoch_increases_by_one (w : World) (op : Op) (hi : Inv w) (m : Nat) (x x' : Member)
    (hm : w.members[m]? = some x) (hm' : (step w op).1.members[m]? = some x')
    (hne : x'.cur ≠ x.cur) :
    (step w op).2 = .ok ∧ (step w op).1.epoch x'.cur = w.epoch x.cur + 1 := by
  obtain ⟨x'', hx'', h⟩ := step_member w op hi m x hm
  rw [hm'] at hx''; cases hx''
  rcases h with ⟨h, _⟩ | ⟨h1, _, h2⟩
  · exact absurd h hne
  · exact ⟨h1, h2⟩

/-- if the state does not change, neither does its epoch (appending commits does not renumber) -/
theorem epoch_stable (w : World) (op : Op) (hi : Inv w) (m : Nat) (x x' : Member)
    (hm : w.members[m]? = some x) (hm' : (step w op).1.members[m]? = some x')
    (heq : x'.cur = x.cur) : (step w op).1.epoch x'.cur = w.epoch x.cur := by
  obtain ⟨x'', hx'', h⟩ := step_member w op hi m x hm
  rw [hm'] at hx''; cases hx''
  rcases h with ⟨_, h⟩ | ⟨_, hne, _⟩
  · exact h
  · exact absurd heq hne

/-- members stay members along a run -/
theorem run_member_exists (w : World) (ops : List Op) (hi : Inv w) (m : Nat) (x : Member)
    (hm : w.members[m]? = some x) : ∃ x', (run w ops).1.members[m]? = some x' := by
  induction ops generalizing w x with
  | nil => exact ⟨x, hm⟩
  | cons op ops ih =>
    obtain ⟨x1, hx1, _⟩ := step_member w op hi m x hm
    rw [run_cons]; exact ih _ (inv_step w op hi) x1 hx1

/-- Along any run, each further operation leaves a member's epoch alone or raises it by exactly one. -/
theorem run_epoch_steps_of_one (w : World) (ops : List Op) (op : Op) (hi : Inv w) (m : Nat)
    (x : Member) (hm : (run w ops).1.members[m]? = some x) :
    ∃ x', (run w (ops ++ [op])).1.members[m]? = some x' ∧
      ((run w (ops ++ [op])).1.epoch x'.cur = (run w ops).1.epoch x.cur ∨
       (run w (ops ++ [op])).1.epoch x'.cur = (run w ops).1.epoch x.cur + 1) := by
  obtain ⟨x', hx', h⟩ := step_member (run w ops).1 op (inv_run w ops hi) m x hm
  rw [run_snoc_fst]
  refine ⟨x', hx', ?_⟩
  rcases h with ⟨_, h⟩ | ⟨_, _, h⟩
  · exact .inl h
  · exact .inr h

/-- Along any run, every member's epoch is non-decreasing (and grows by at most the number of
operations). -/
theorem run_epoch_monotone (w : World) (ops : List Op) (hi : Inv w) (m : Nat) (x : Member)
    (hm : w.members[m]? = some x) :
    ∃ x', (run w ops).1.members[m]? = some x' ∧
      w.epoch x.cur ≤ (run w ops).1.epoch x'.cur ∧
      (run w ops).1.epoch x'.cur ≤ w.epoch x.cur + ops.length := by
  induction ops generalizing w x with
  | nil => exact ⟨x, hm, Nat.le_refl _, Nat.le_refl _⟩
  | cons op ops ih =>
    obtain ⟨x1, hx1, h1⟩ := step_member w op hi m x hm
    obtain ⟨x', hx', h2, h3⟩ := ih (step w op).1 (inv_step w op hi) x1 hx1
    have hrun : (run w (op :: ops)).1 = (run (step w op).1 ops).1 := rfl
    rw [hrun]
    refine ⟨x', hx', ?_, ?_⟩
    · rcases h1 with ⟨_, h1⟩ | ⟨_, _, h1⟩ <;> omega
    · simp only [List.length_cons]
      rcases h1 with ⟨_, h1⟩ | ⟨_, _, h1⟩ <;> omega

/-! ### one successor per epoch: members move along the tree of states

`Hist w` (see `MlsVerif.Pending.Hist`): every commit was built on a state that its author's current
state descends from.  Together with `Inv` it holds in every reachable world, and it turns the epoch
*number* comparison of `applyDet` into an identity of *states*. -/

theorem hist_init (n : Nat) : Hist (init n) := by
  intro k c x hc _
  simp [init] at hc

theorem hist_step (w : World) (op : Op) (hi : Inv w) (hh : Hist w) : Hist (step w op).1 := by
  have h := step_shape w op
  generalize step w op = r at h
  cases h with
  | err r hne => exact hh
  | buildDet m x hop hm hp => exact hh.addCommit m x hm
  | buildAtt m x hop hm hp => exact (hh.addCommit m x hm).setMember m x _ hm (.refl _)
  | clear m x hop hm => exact hh.setMember m x _ hm (.refl _)
  | own m k x hop hm hp =>
    obtain ⟨c, hc, _, hb⟩ := hi.pending_wf m x k hm hp
    exact hh.setMember m x _ hm (.up _ k c hc (hb ▸ .refl _))
  | move m k x c hop hm hc he hcase =>
    have hb : c.base = x.cur := by
      rcases hcase with ha | hb
      · rcases (hh k c x hc (by rw [ha]; exact hm)).eq_or_lt w hi.commitsWF with e | e
        · exact e
        · omega
      · exact hb
    exact hh.setMember m x _ hm (.up _ k c hc (hb ▸ .refl _))

theorem hist_run (w : World) (ops : List Op) (hi : Inv w) (hh : Hist w) : Hist (run w ops).1 := by
  induction ops generalizing w with
  | nil => exact hh
  | cons op ops ih => rw [run_cons]; exact ih _ (inv_step w op hi) (hist_step w op hi hh)

theorem hist_reachable (n : Nat) (ops : List Op) : Hist (run (init n) ops).1 :=
  hist_run _ _ (inv_init n) (hist_init n)

/-- In a reachable world, detached commit secrets are accepted only on the very state they were built
on: the epoch-number test of `apply_detached_commit` is as strong as comparing states, because a member
passes through exactly one state per epoch. -/
theorem detached_only_on_base (w : World) (m k : Nat) (x : Member) (c : Commit) (hi : Inv w)
    (hh : Hist w) (hm : w.members[m]? = some x) (hc : w.commits[k]? = some c)
    (h : (step w (.applyDet m k)).2 = .ok) : c.base = x.cur := by
  obtain ⟨x', c', hm', hc', _, ha, he⟩ := applyDet_ok_cases w m k h
  rw [hm] at hm'; rw [hc] at hc'
  cases hm'; cases hc'
  rcases (hh k c x hc (by rw [ha]; exact hm)).eq_or_lt w hi.commitsWF with e | e
  · exact e
  · omega

/-- In a reachable world, whenever a step changes `cur m` from `s` to `s'`, then `s' = k+1` for a
commit `k` built on `s`: the only way to leave a state is along one of the commits built on it. -/
theorem moves_follow_commits (w : World) (op : Op) (hi : Inv w) (hh : Hist w) (m : Nat)
    (x x' : Member) (hm : w.members[m]? = some x) (hm' : (step w op).1.members[m]? = some x')
    (hne : x'.cur ≠ x.cur) :
    ∃ k c, w.commits[k]? = some c ∧ c.base = x.cur ∧ x'.cur = k + 1 := by
  have h := step_shape w op
  generalize step w op = r at h hm'
  cases h with
  | err r hne' => rw [hm] at hm'; cases hm'; exact absurd rfl hne
  | buildDet m0 x0 hop hm0 hp => rw [addCommit_members, hm] at hm'; cases hm'; exact absurd rfl hne
  | buildAtt m0 x0 hop hm0 hp =>
    rcases setMember_get_cases _ m0 m _ x' hm' with ⟨rfl, rfl⟩ | ⟨_, h'⟩
    · rw [hm] at hm0; cases hm0; exact absurd rfl hne
    · rw [addCommit_members, hm] at h'; cases h'; exact absurd rfl hne
  | clear m0 x0 hop hm0 =>
    rcases setMember_get_cases _ m0 m _ x' hm' with ⟨rfl, rfl⟩ | ⟨_, h'⟩
    · rw [hm] at hm0; cases hm0; exact absurd rfl hne
    · rw [hm] at h'; cases h'; exact absurd rfl hne
  | own m0 k x0 hop hm0 hp =>
    rcases setMember_get_cases _ m0 m _ x' hm' with ⟨rfl, rfl⟩ | ⟨_, h'⟩
    · rw [hm] at hm0; cases hm0
      obtain ⟨c, hc, _, hb⟩ := hi.pending_wf m x k hm hp
      exact ⟨k, c, hc, hb, rfl⟩
    · rw [hm] at h'; cases h'; exact absurd rfl hne
  | move m0 k x0 c hop hm0 hc he hcase =>
    rcases setMember_get_cases _ m0 m _ x' hm' with ⟨rfl, rfl⟩ | ⟨_, h'⟩
    · rw [hm] at hm0; cases hm0
      refine ⟨k, c, hc, ?_, rfl⟩
      rcases hcase with ha | hb
      · rcases (hh k c x hc (by rw [ha]; exact hm)).eq_or_lt w hi.commitsWF with e | e
        · exact e
        · omega
      · exact hb
    · rw [hm] at h'; cases h'; exact absurd rfl hne

/-! ### non-vacuity: concrete scenarios -/

/-- three members; 0 and 1 each build a commit on the initial state -/
def wA : World := (run (init 3) [.build 0 false, .build 1 false]).1

example : Inv wA := inv_reachable 3 _
example : wA.members = [⟨0, some 0⟩, ⟨0, some 1⟩, ⟨0, none⟩] := by decide
example : wA.commits = [⟨0, 0⟩, ⟨1, 0⟩] := by decide

-- building did not move anybody; second build refused; errors change nothing
example : (step wA (.build 0 true)).2 = .existingPendingCommit := by decide
example : (step wA (.build 0 true)).2 ≠ .ok := by decide
example : (step wA (.build 2 false)).2 = .ok := by decide
example : (step wA (.build 2 false)).1.members = [⟨0, some 0⟩, ⟨0, some 1⟩, ⟨0, some 2⟩] := by decide
example : (step wA (.build 2 true)).1.members = wA.members := by decide
example : (step wA (.apply 2)).2 = .pendingCommitNotFound := by decide
example : (step wA (.apply 7)).2 = .badOp := by decide

-- clear restores
example : (run (init 3) [.build 0 false, .clear 0]).1.members = (init 3).members := by decide
example : (run (init 3) [.build 0 false, .clear 0, .build 0 false]).2 = [.ok, .ok, .ok] := by decide

-- committer and receivers agree: member 0 applies commit 0, member 2 receives it, member 1 (who had
-- its own pending commit) receives it and loses its pending commit
example : (run wA [.apply 0, .deliver 2 0, .deliver 1 0]).2 = [.ok, .ok, .ok] := by decide
example : (run wA [.apply 0, .deliver 2 0, .deliver 1 0]).1.members =
    [⟨1, none⟩, ⟨1, none⟩, ⟨1, none⟩] := by decide
example : (run wA [.deliver 0 0]).1.members = (run wA [.apply 0]).1.members := by decide
-- hypotheses of `apply_eq_receivers` on `wA`: member 0 has pending 0; member 2 is on its base
example : wA.members[0]? = some ⟨0, some 0⟩ ∧ wA.members[2]? = some ⟨0, none⟩ ∧
    wA.commits[0]? = some ⟨0, 0⟩ := by decide

/-- the two committers both apply: a fork into states 1 and 2, both of epoch 1; then member 1 builds
commit 2 on state 2 and member 0 builds the detached commit 3 on state 1 -/
def wB : World := (run wA [.apply 0, .apply 1, .build 1 false, .build 0 true]).1

example : Inv wB := inv_run _ _ (inv_reachable 3 _)
example : Hist wB := hist_run _ _ (inv_reachable 3 _) (hist_reachable 3 _)
example : wB.members = [⟨1, none⟩, ⟨2, some 2⟩, ⟨0, none⟩] := by decide
example : wB.commits = [⟨0, 0⟩, ⟨1, 0⟩, ⟨1, 2⟩, ⟨0, 1⟩] := by decide
example : wB.epoch 0 = 0 ∧ wB.epoch 1 = 1 ∧ wB.epoch 2 = 1 ∧ wB.epoch 3 = 2 ∧ wB.epoch 4 = 2 := by decide
-- a commit for another epoch: refused (member 2 is still in epoch 0, commit 2 is built on epoch 1)
example : wB.epoch 2 ≠ wB.epoch 0 ∧ (step wB (.deliver 2 2)).2 = .invalidEpoch := by decide
-- same epoch number, other branch: refused
example : wB.epoch 2 = wB.epoch 1 ∧ (step wB (.deliver 0 2)).2 = .invalidEpoch := by decide
-- own commit that is not pending: refused
example : (step wB (.deliver 0 3)).2 = .cantProcessMessageFromSelf := by decide
-- detached commit: applicable now ...
example : (step wB (.applyDet 0 3)).2 = .ok ∧
    (step wB (.applyDet 0 3)).1.members[0]? = some ⟨4, none⟩ := by decide
-- ... but stale once member 0 has moved on (here: by a commit of its own)
example : (run wB [.build 0 false, .apply 0, .applyDet 0 3]).2 = [.ok, .ok, .invalidEpoch] := by decide
example : (run wB [.build 0 false, .apply 0, .applyDet 0 3]).1.members[0]? = some ⟨5, none⟩ := by
  decide
-- `stale_detached_rejected` needs `c.author = m`: the author guard of the model comes first, so commit
-- secrets of somebody else's commit from another epoch give `badOp`, not `invalidEpoch`
example : wB.commits[2]? = some ⟨1, 2⟩ ∧ wB.members[2]? = some ⟨0, none⟩ ∧ wB.epoch 2 ≠ wB.epoch 0 ∧
    (step wB (.applyDet 2 2)).2 = .badOp := by decide
-- epochs move by one: member 0 goes 0 → 1 → 2 → 3
example : (run wB [.build 0 false, .apply 0]).1.epoch 5 = wB.epoch 1 + 1 := by decide
example : (run wB [.applyDet 0 3, .build 0 false, .apply 0]).1.epoch 5 = 3 := by decide

end MlsVerif.Props.C11
