import MlsVerif.Proofs.Tree
/-
C02: path secrets go only to entitled keys.

Model: `Model/Tree.lean` (keys are stamps; holding the stamp stored at a node = being able to open
what is sealed to that node).  `encap` returns, per unfiltered direct-path node `n`, the list of
node indices whose public keys the path secret of `n` is sealed to (`EncapOut.seals`).
Invariants: see `Props/C08.lean`.  Proofs: `Proofs/Tree/*`.
-/
namespace MlsVerif.Props.C02
open MlsVerif.Tree MlsVerif.TreeMath

/-! ### (8) the resolution -/

/-- every element of a resolution is a non-blank node -/
theorem resolution_nonblank {t : Tree} (hu : UnmergedInv t) {x r : Nat} (h : r ∈ resolution t x) :
    get t r ≠ none :=
  resolution_nonblank' hu h

/-- … lying in the subtree rooted at the resolved node (`inSub`: node-index range of the subtree;
for a leaf `r = 2 * i` this is the leaf range `TreeMath.subtree`) -/
theorem resolution_in_subtree {t : Tree} (hu : UnmergedInv t) {x r : Nat} (h : r ∈ resolution t x) :
    inSub r x ∧ (r % 2 = 0 → (subtree x).1 ≤ r / 2 ∧ r / 2 < (subtree x).2) := by
  have h1 := resolution_in_subtree' hu h
  refine ⟨h1, fun he => ?_⟩
  have : r = 2 * (r / 2) := by omega
  rw [this] at h1
  exact below_of_inSub h1

/-- … without repetitions -/
theorem resolution_nodup {t : Tree} (hs : ShapeInv t) (hu : UnmergedInv t) (x : Nat) :
    (resolution t x).Nodup :=
  resolution_nodup' hs.1 hu x

/-- the resolution is empty exactly when the whole subtree is blank -/
theorem resolution_empty_iff {t : Tree} {x : Nat} :
    isResolutionEmpty t x = true ↔ ∀ r, inSub r x → get t r = none := by
  unfold isResolutionEmpty
  rw [List.isEmpty_iff]
  exact resolution_eq_nil

/-! ### (6) recipients of a path secret -/

/-- Every path secret is sealed only to non-blank nodes in the resolution — computed in the NEW
tree — of the copath child of its path node, and never to a leaf in `excl` (the leaves added by the
same commit). -/
theorem seal_recipients_in_resolution {t : Tree} {self fresh : Nat} {newLeaf : Leaf}
    {excl : List Nat} {o : EncapOut} (hs : ShapeInv t) (hu : UnmergedInv t) (hn : NonEmptyInv t)
    (hL : ∃ L, get t (2 * self) = some (.leaf L))
    (h : encap t self newLeaf excl fresh = .ok o) :
    ∀ n rs, (n, rs) ∈ o.seals → ∃ cp ∈ directCopathOf t self, cp.1 = n ∧
      ∀ r ∈ rs, r ∈ resolution o.tree cp.2 ∧ (r % 2 = 0 → r / 2 ∉ excl) ∧ get o.tree r ≠ none :=
  seal_recipients hs hu hn hL h

/-- the part that needs no invariant -/
theorem seal_recipients_in_resolution_raw {t : Tree} {self fresh : Nat} {newLeaf : Leaf}
    {excl : List Nat} {o : EncapOut} (h : encap t self newLeaf excl fresh = .ok o) :
    ∀ n rs, (n, rs) ∈ o.seals → ∃ cp ∈ directCopathOf t self, cp.1 = n ∧
      ∀ r ∈ rs, r ∈ resolution o.tree cp.2 ∧ (r % 2 = 0 → r / 2 ∉ excl) :=
  seal_recipients_in_resolution' h

/-- exact description of the seals: one per direct-path position that got a key -/
theorem seals_exact {t : Tree} {self fresh : Nat} {newLeaf : Leaf} {excl : List Nat} {o : EncapOut}
    (h : encap t self newLeaf excl fresh = .ok o) :
    ∀ n rs, (n, rs) ∈ o.seals ↔
      ∃ (j : Nat) (cp : Nat × Nat) (k : Nat), (directCopathOf t self)[j]? = some cp ∧
        o.pathKeys[j]? = some (some k) ∧ n = cp.1 ∧
        rs = (resolution o.tree cp.2).filter (fun i => !(excl.map (2 * ·)).contains i) :=
  encap_seals h

/-! ### (7) a removed member holds no key of the new tree -/

/-- After the proposals, none of the stamps that the owner of a removed leaf `r` held
(`KeyInv t p`, `p.self = r`, i.e. the stamps of `expectedSlots t r`) occurs anywhere in the new
tree: the leaf and its whole direct path are blanked and stamps are unique.  `FreshKeys`: the HPKE
stamps of the leaf nodes brought by the proposals are new (a Remove + Add of the same member with
the *same* HPKE key is not rejected by `conflicts`, see `readd_same_key` below). -/
theorem removed_keys_gone {t t' : Tree} {e : Edits} {added : List Nat} {r : Nat} {p : Priv}
    (hw : WF t) (hfr : e.FreshKeys t) (hb : batchEdit t e = .ok (added, t'))
    (hr : r ∈ e.removes) (hra : r ∉ added) (hk : KeyInv t p) (hp : p.self = r) :
    ∀ j k, slotAt p.keys j = some k → k ∉ keyStamps t' := by
  intro j k hjk
  rw [(keyInv_iff _ _).1 hk j, hp] at hjk
  exact removed_keys_gone_batchEdit hw hfr hb hr hra j k hjk

/-- the version on the entitlement itself -/
theorem removed_entitlement_gone {t t' : Tree} {e : Edits} {added : List Nat} {r : Nat}
    (hw : WF t) (hfr : e.FreshKeys t) (hb : batchEdit t e = .ok (added, t'))
    (hr : r ∈ e.removes) (hra : r ∉ added) :
    ∀ j k, slotAt (expectedSlots t r) j = some k → k ∉ keyStamps t' :=
  removed_keys_gone_batchEdit hw hfr hb hr hra

/-- … and after the subsequent `encap` by anybody with fresh stamps; hence (with (6)) no path
secret of the commit is sealed to a key the removed member holds. -/
theorem removed_cannot_open_seals {t t1 : Tree} {e : Edits} {added : List Nat} {r : Nat} {p : Priv}
    (hw : WF t) (hfr : e.FreshKeys t) (hb : batchEdit t e = .ok (added, t1))
    (hr : r ∈ e.removes) (hra : r ∉ added) (hp : p.self = r) (hk : KeyInv t p)
    {sender fresh : Nat} {nl : Leaf} {excl : List Nat} {o : EncapOut}
    (hsb : StampsBelow t fresh) (hnl : nl.hpke ∉ keyStamps t)
    (hL : ∃ L, get t1 (2 * sender) = some (.leaf L))
    (he : encap t1 sender nl excl fresh = .ok o) :
    (∀ j k, slotAt p.keys j = some k → k ∉ keyStamps o.tree) ∧
    ∀ n rs, (n, rs) ∈ o.seals → ∀ x ∈ rs, ∀ nd, get o.tree x = some nd →
      ∀ j, slotAt p.keys j ≠ some nd.key :=
  removed_cannot_open hw hfr hb hr hra hp hk hsb hnl hL he

/-! ### Non-vacuity -/

private def L (i : Nat) : Option Node := some (.leaf ⟨i, 100 + i, 200 + i⟩)
private def P (k : Nat) (u : List Nat) : Option Node := some (.parent ⟨k, u⟩)

/-- four members; leaf 3 unmerged at the root; node 5 blank -/
private def tA : Tree := [L 0, P 10 [], L 1, P 11 [3], L 2, none, L 3]

example : WF tA ∧ StampsBelow tA 1000 := by decide +kernel
-- resolutions: the root resolves to itself plus its unmerged leaf 3 (node 6); the blank node 5 to
-- its two leaves; a blank subtree to nothing
example : resolution tA 3 = [3, 6] ∧ resolution tA 5 = [4, 6] ∧ resolution tA 1 = [1] ∧
    resolution [L 0, none, none] 2 = [] := by decide +kernel
example : (resolution tA 3).Nodup := resolution_nodup (by decide +kernel) (by decide +kernel) 3
example : get tA 6 ≠ none :=
  resolution_nonblank (t := tA) (x := 3) (by decide +kernel) (by decide +kernel)

-- leaf 0 commits, leaf 3 was added by the same commit: the root secret goes to leaf 2 (node 4) only
private def oA : EncapOut :=
  { tree := [some (.leaf ⟨0, 300, 200⟩), P 1000 [], L 1, P 1001 [], L 2, none, L 3],
    slots := [some 300, some 1000, some 1001], pathKeys := [some 1000, some 1001],
    seals := [(1, [2]), (3, [4])] }
private theorem encA : encap tA 0 ⟨0, 300, 200⟩ [3] 1000 = .ok oA := by decide +kernel

example : ∀ n rs, (n, rs) ∈ oA.seals → ∃ cp ∈ directCopathOf tA 0, cp.1 = n ∧
    ∀ r ∈ rs, r ∈ resolution oA.tree cp.2 ∧ (r % 2 = 0 → r / 2 ∉ [3]) ∧ get oA.tree r ≠ none :=
  seal_recipients_in_resolution (by decide +kernel) (by decide +kernel) (by decide +kernel)
    ⟨_, rfl⟩ encA

-- removing leaves 0 and 1 (the new member lands on slot 0): the keys leaf 1 held are gone
private def eR : Edits := ⟨[0, 1], [], [⟨8, 108, 208⟩]⟩
private def tR : Tree := [L 8, none, none, none, L 2, none, L 3]
private theorem beR : batchEdit tA eR = .ok ([0], tR) := by decide +kernel

example : expectedSlots tA 1 = [some 101, some 10, some 11] ∧ keyStamps tR = [108, 102, 103] := by
  decide +kernel
example : ∀ j k, slotAt (Priv.mk 1 [some 101, some 10, some 11]).keys j = some k → k ∉ keyStamps tR :=
  removed_keys_gone (t := tA) (r := 1) (by decide +kernel) (by decide +kernel) beR
    (by decide) (by decide) (by decide +kernel) rfl

/-- Why `FreshKeys` is assumed: removing member 1 and adding a leaf node with member 1's old HPKE
key is accepted (the `conflicts` check runs after the removes), the new leaf lands on slot 0, and
stamp 101 is still in the tree although leaf 1 was removed and not re-added at its position. -/
theorem readd_same_key :
    batchEdit tA ⟨[0, 1], [], [⟨1, 101, 201⟩]⟩ =
      .ok ([0], [L 1, none, none, none, L 2, none, L 3]) ∧
    101 ∈ keyStamps [L 1, none, none, none, L 2, none, L 3] := by decide +kernel

end MlsVerif.Props.C02
