/-
C17 — membership and parameter checks of a re-initialised / branched successor group
(`group/resumption.rs`: `check_that_subgroup_is_a_subset`, `ResumptionGroupBuilder::join`; re-init freeze).
All statements hold for all inputs (no bounds).
-/
import MlsVerif.Proofs.Resumption

namespace MlsVerif.Props.C17
open MlsVerif.Resumption

/-! ### membership -/

/-- Re-init: for rosters without duplicate identities the check passes exactly when the successor has
the same identities as the old group — in whatever order, and (the model compares member counts)
whatever the shape of the old tree. -/
theorem reinit_iff_same_identities (oldIds newIds : List Nat) (hold : oldIds.Nodup)
    (hnew : newIds.Nodup) :
    checkSubgroup .reinit oldIds newIds = true ↔ ∀ x, x ∈ newIds ↔ x ∈ oldIds := by
  rw [checkSubgroup_reinit_iff]
  constructor
  · rintro ⟨hlen, hsub⟩ x
    exact ⟨hsub x, (nodup_subset_length newIds oldIds hnew hsub).2 (Nat.le_of_eq hlen) x⟩
  · intro h
    exact ⟨nodup_same_elems_length oldIds newIds hold hnew fun x => (h x).symm, fun x => (h x).1⟩

/-- without the duplicate-freeness assumption the check still says: same number of members, and every
new identity is an old one -/
theorem reinit_iff (oldIds newIds : List Nat) :
    checkSubgroup .reinit oldIds newIds = true ↔
      oldIds.length = newIds.length ∧ ∀ x, x ∈ newIds → x ∈ oldIds :=
  checkSubgroup_reinit_iff oldIds newIds

/-- Branch: the check passes exactly when the new identities are among the old ones. -/
theorem branch_iff_subset (oldIds newIds : List Nat) :
    checkSubgroup .branch oldIds newIds = true ↔ ∀ x, x ∈ newIds → x ∈ oldIds :=
  checkSubgroup_branch_iff oldIds newIds

/-- a re-init successor is in particular acceptable as a branch -/
theorem reinit_implies_branch (oldIds newIds : List Nat)
    (h : checkSubgroup .reinit oldIds newIds = true) : checkSubgroup .branch oldIds newIds = true :=
  (branch_iff_subset _ _).2 ((reinit_iff _ _).1 h).2

/-- An identity that was not in the old group makes both checks fail. -/
theorem foreign_identity_rejected (k : Kind) (oldIds newIds : List Nat) (x : Nat) (hx : x ∈ newIds)
    (hnot : x ∉ oldIds) : checkSubgroup k oldIds newIds = false := by
  cases h : checkSubgroup k oldIds newIds
  · rfl
  · exfalso
    cases k
    · exact hnot (((reinit_iff _ _).1 h).2 x hx)
    · exact hnot ((branch_iff_subset _ _).1 h x hx)

/-- the old members plus somebody new: rejected -/
theorem superset_rejected (k : Kind) (oldIds extra : List Nat) (x : Nat) (hx : x ∉ oldIds) :
    checkSubgroup k oldIds (oldIds ++ x :: extra) = false :=
  foreign_identity_rejected k oldIds _ x (by simp) hx

/-- one old member replaced by somebody new (same size): rejected -/
theorem replaced_identity_rejected (k : Kind) (pre post : List Nat) (a b : Nat)
    (hb : b ∉ pre ++ a :: post) :
    checkSubgroup k (pre ++ a :: post) (pre ++ b :: post) = false :=
  foreign_identity_rejected k _ _ b (by simp) hb

/-- re-init with a strict subset of a duplicate-free old roster: rejected (fewer members) -/
theorem reinit_fewer_members_rejected (oldIds newIds : List Nat)
    (hlen : newIds.length ≠ oldIds.length) : checkSubgroup .reinit oldIds newIds = false := by
  cases h : checkSubgroup .reinit oldIds newIds
  · rfl
  · exact absurd ((reinit_iff _ _).1 h).1.symm hlen

/-! ### parameter checks of `join` -/

theorem joinChecks_ok_iff (k : Kind) (oldIds newIds : List Nat) (expected got : Params) :
    joinChecks k oldIds newIds expected got = .ok () ↔
      checkSubgroup k oldIds newIds = true ∧ got.version = expected.version ∧
      got.suite = expected.suite ∧ got.epoch = 1 ∧
      (k = .reinit → got.groupId = expected.groupId) ∧ got.extensions = expected.extensions := by
  unfold joinChecks
  constructor
  · intro h
    split at h
    · cases h
    split at h
    · cases h
    split at h
    · cases h
    split at h
    · cases h
    split at h
    · cases h
    split at h
    · cases h
    simp_all
  · rintro ⟨h1, h2, h3, h4, h5, h6⟩
    have h5' : ¬ (k = .reinit ∧ got.groupId ≠ expected.groupId) := fun ⟨a, b⟩ => b (h5 a)
    simp [h1, h2, h3, h4, h5', h6]

theorem not_subgroup_rejected (k : Kind) (oldIds newIds : List Nat) (expected got : Params)
    (h : checkSubgroup k oldIds newIds = false) :
    joinChecks k oldIds newIds expected got = .error .notASubgroup := by
  simp [joinChecks, h]

theorem param_mismatch_rejected_version (k : Kind) (oldIds newIds : List Nat) (expected got : Params)
    (h1 : checkSubgroup k oldIds newIds = true) (h : got.version ≠ expected.version) :
    joinChecks k oldIds newIds expected got = .error .protocolVersionMismatch := by
  simp [joinChecks, h1, h]

theorem param_mismatch_rejected_suite (k : Kind) (oldIds newIds : List Nat) (expected got : Params)
    (h1 : checkSubgroup k oldIds newIds = true) (h2 : got.version = expected.version)
    (h : got.suite ≠ expected.suite) :
    joinChecks k oldIds newIds expected got = .error .cipherSuiteMismatch := by
  simp [joinChecks, h1, h2, h]

theorem param_mismatch_rejected_epoch (k : Kind) (oldIds newIds : List Nat) (expected got : Params)
    (h1 : checkSubgroup k oldIds newIds = true) (h2 : got.version = expected.version)
    (h3 : got.suite = expected.suite) (h : got.epoch ≠ 1) :
    joinChecks k oldIds newIds expected got = .error .initialEpochNotOne := by
  simp [joinChecks, h1, h2, h3, h]

theorem param_mismatch_rejected_groupId (oldIds newIds : List Nat) (expected got : Params)
    (h1 : checkSubgroup .reinit oldIds newIds = true) (h2 : got.version = expected.version)
    (h3 : got.suite = expected.suite) (h4 : got.epoch = 1) (h : got.groupId ≠ expected.groupId) :
    joinChecks .reinit oldIds newIds expected got = .error .groupIdMismatch := by
  simp [joinChecks, h1, h2, h3, h4, h]

theorem param_mismatch_rejected_extensions (k : Kind) (oldIds newIds : List Nat)
    (expected got : Params)
    (h1 : checkSubgroup k oldIds newIds = true) (h2 : got.version = expected.version)
    (h3 : got.suite = expected.suite) (h4 : got.epoch = 1)
    (h5 : k = .reinit → got.groupId = expected.groupId) (h : got.extensions ≠ expected.extensions) :
    joinChecks k oldIds newIds expected got = .error .reInitExtensionsMismatch := by
  have h5' : ¬ (k = .reinit ∧ got.groupId ≠ expected.groupId) := fun ⟨a, b⟩ => b (h5 a)
  simp [joinChecks, h1, h2, h3, h4, h5', h]

/-! #### the error class, exactly: each class is reported precisely when every earlier check passes and this one fails
(`join`: subset check first, then version, suite, epoch, group id, extensions) -/

theorem joinChecks_notASubgroup_iff (k : Kind) (oldIds newIds : List Nat) (expected got : Params) :
    joinChecks k oldIds newIds expected got = .error .notASubgroup ↔
      checkSubgroup k oldIds newIds = false := by
  unfold joinChecks
  cases h : checkSubgroup k oldIds newIds
  · simp
  · simp only [Bool.not_true, Bool.false_eq_true, if_false]
    repeat' split
    all_goals simp

theorem joinChecks_version_iff (k : Kind) (oldIds newIds : List Nat) (expected got : Params) :
    joinChecks k oldIds newIds expected got = .error .protocolVersionMismatch ↔
      checkSubgroup k oldIds newIds = true ∧ got.version ≠ expected.version := by
  unfold joinChecks
  cases h : checkSubgroup k oldIds newIds
  · simp
  · simp only [Bool.not_true, Bool.false_eq_true, if_false]
    repeat' split
    all_goals simp_all

theorem joinChecks_suite_iff (k : Kind) (oldIds newIds : List Nat) (expected got : Params) :
    joinChecks k oldIds newIds expected got = .error .cipherSuiteMismatch ↔
      checkSubgroup k oldIds newIds = true ∧ got.version = expected.version ∧
      got.suite ≠ expected.suite := by
  unfold joinChecks
  cases h : checkSubgroup k oldIds newIds
  · simp
  · simp only [Bool.not_true, Bool.false_eq_true, if_false]
    repeat' split
    all_goals simp_all

theorem joinChecks_epoch_iff (k : Kind) (oldIds newIds : List Nat) (expected got : Params) :
    joinChecks k oldIds newIds expected got = .error .initialEpochNotOne ↔
      checkSubgroup k oldIds newIds = true ∧ got.version = expected.version ∧
      got.suite = expected.suite ∧ got.epoch ≠ 1 := by
  unfold joinChecks
  cases h : checkSubgroup k oldIds newIds
  · simp
  · simp only [Bool.not_true, Bool.false_eq_true, if_false]
    repeat' split
    all_goals simp_all

theorem joinChecks_groupId_iff (k : Kind) (oldIds newIds : List Nat) (expected got : Params) :
    joinChecks k oldIds newIds expected got = .error .groupIdMismatch ↔
      checkSubgroup k oldIds newIds = true ∧ got.version = expected.version ∧
      got.suite = expected.suite ∧ got.epoch = 1 ∧ k = .reinit ∧ got.groupId ≠ expected.groupId := by
  unfold joinChecks
  cases h : checkSubgroup k oldIds newIds
  · simp
  · simp only [Bool.not_true, Bool.false_eq_true, if_false]
    repeat' split
    all_goals simp_all

theorem joinChecks_extensions_iff (k : Kind) (oldIds newIds : List Nat) (expected got : Params) :
    joinChecks k oldIds newIds expected got = .error .reInitExtensionsMismatch ↔
      checkSubgroup k oldIds newIds = true ∧ got.version = expected.version ∧
      got.suite = expected.suite ∧ got.epoch = 1 ∧
      (k = .reinit → got.groupId = expected.groupId) ∧ got.extensions ≠ expected.extensions := by
  unfold joinChecks
  cases h : checkSubgroup k oldIds newIds
  · simp
  · simp only [Bool.not_true, Bool.false_eq_true, if_false]
    repeat' split
    all_goals simp_all

/-- what an accepted Welcome guarantees about the three parameters the harness deviates in: the announced version and
suite, and epoch 1 -/
theorem join_ok_version_suite_epoch (k : Kind) (oldIds newIds : List Nat) (expected got : Params)
    (h : joinChecks k oldIds newIds expected got = .ok ()) :
    got.version = expected.version ∧ got.suite = expected.suite ∧ got.epoch = 1 :=
  let ⟨_, hv, hs, he, _, _⟩ := (joinChecks_ok_iff k oldIds newIds expected got).1 h
  ⟨hv, hs, he⟩

/-- a creator that makes `n ≥ 1` commits in the new group before the one that adds the members produces a Welcome for
epoch `1 + n`: refused whatever else is right, unless an earlier check already fails -/
theorem late_welcome_rejected (k : Kind) (oldIds newIds : List Nat) (expected got : Params) (n : Nat)
    (hn : 0 < n) (he : got.epoch = 1 + n) : joinChecks k oldIds newIds expected got ≠ .ok () := by
  intro h
  have := (join_ok_version_suite_epoch k oldIds newIds expected got h).2.2
  omega

/-- a successor of another cipher suite is never joined, and the class is one of the first three -/
theorem other_suite_rejected (k : Kind) (oldIds newIds : List Nat) (expected got : Params)
    (hs : got.suite ≠ expected.suite) :
    joinChecks k oldIds newIds expected got = .error .notASubgroup ∨
    joinChecks k oldIds newIds expected got = .error .protocolVersionMismatch ∨
    joinChecks k oldIds newIds expected got = .error .cipherSuiteMismatch := by
  cases h1 : checkSubgroup k oldIds newIds
  · exact .inl ((joinChecks_notASubgroup_iff ..).2 h1)
  · by_cases h2 : got.version = expected.version
    · exact .inr (.inr ((joinChecks_suite_iff ..).2 ⟨h1, h2, hs⟩))
    · exact .inr (.inl ((joinChecks_version_iff ..).2 ⟨h1, h2⟩))

/-- a branch does not look at the group id -/
theorem branch_ignores_groupId (oldIds newIds : List Nat) (expected got : Params) (g : Nat) :
    joinChecks .branch oldIds newIds expected { got with groupId := g } =
      joinChecks .branch oldIds newIds expected got := by
  simp [joinChecks]

/-! ### freeze -/

/-- once a re-init has been committed, the old group neither builds nor processes commits -/
theorem frozen_after_reinit : commitAllowed true = false := rfl

theorem not_frozen_before_reinit : commitAllowed false = true := rfl

/-- frozen: every way of building or processing a commit is refused with `GroupUsedAfterReInit` -/
theorem frozen_refuses_every_commit (e : CommitEntry) :
    commitVerdict true e = .error .groupUsedAfterReInit := rfl

theorem commitVerdict_ok_iff (p : Bool) (e : CommitEntry) :
    commitVerdict p e = .ok () ↔ p = false := by
  cases p <;> simp [commitVerdict, commitAllowed]

/-- a refused attempt changes nothing -/
theorem attempt_refused_unchanged (g : OldGroup) (e : CommitEntry) (r : Bool)
    (h : (g.attempt e r).2 = false) : (g.attempt e r).1 = g := by
  unfold OldGroup.attempt at *
  cases hv : commitVerdict g.pendingReinit e <;> simp_all

/-- the commit that carries the ReInit freezes the group -/
theorem reinit_commit_freezes (g : OldGroup) (e : CommitEntry) (h : g.pendingReinit = false) :
    (g.attempt e true).1.pendingReinit = true ∧ (g.attempt e true).2 = true := by
  simp [OldGroup.attempt, commitVerdict, commitAllowed, h]

/-- once frozen, always frozen: whatever commits are attempted afterwards (built or received, with or without a further
ReInit), each is refused and the state stays what it was -/
theorem frozen_forever (g : OldGroup) (h : g.pendingReinit = true)
    (attempts : List (CommitEntry × Bool)) :
    (g.run attempts).1 = g ∧ ∀ ok, ok ∈ (g.run attempts).2 → ok = false := by
  induction attempts with
  | nil => simp [OldGroup.run]
  | cons a rest ih =>
    obtain ⟨e, r⟩ := a
    have h1 : g.attempt e r = (g, false) := by
      simp [OldGroup.attempt, commitVerdict, commitAllowed, h]
    simp only [OldGroup.run, h1]
    refine ⟨ih.1, fun ok hok => ?_⟩
    rcases List.mem_cons.1 hok with rfl | hmem
    · rfl
    · exact ih.2 ok hmem

/-- a history: some ordinary commits, the re-init commit, then any attempts: the old group ends at the epoch after the
re-init commit -/
theorem epoch_stops_after_reinit (g : OldGroup) (e : CommitEntry) (h : g.pendingReinit = false)
    (attempts : List (CommitEntry × Bool)) :
    (g.run ((e, true) :: attempts)).1 = { epoch := g.epoch + 1, pendingReinit := true } := by
  have h1 : g.attempt e true = ({ epoch := g.epoch + 1, pendingReinit := true }, true) := by
    simp [OldGroup.attempt, commitVerdict, commitAllowed, h]
  simp only [OldGroup.run, h1]
  exact (frozen_forever _ rfl attempts).1

/-! ### the defect that was fixed -/

/-- the check as it was before the fix: re-init compared the lengths of the two node arrays -/
def checkSubgroupOld (k : Kind) (oldNodeLen newNodeLen : Nat) (oldIds newIds : List Nat) : Bool :=
  (k != .reinit || oldNodeLen == newNodeLen) && newIds.all fun i => oldIds.contains i

/-- Old group: members `10` and `30` at leaves 0 and 2 of a 3-leaf tree whose leaf 1 is blank (node
array of length 5).  Successor: the same two members in a fresh 2-leaf tree (node array of length 3).
The old check rejected this legitimate successor; the fixed check accepts it. -/
theorem old_check_rejected_legitimate_successor :
    checkSubgroupOld .reinit 5 3 [10, 30] [30, 10] = false ∧
    checkSubgroup .reinit [10, 30] [30, 10] = true ∧
    (∀ x, x ∈ [30, 10] ↔ x ∈ [10, 30]) := by
  refine ⟨by decide, by decide, fun x => ?_⟩
  simp only [List.mem_cons, List.not_mem_nil, or_false]
  exact Or.comm

/-- the two checks agree whenever the node-array lengths happen to reflect the member counts -/
theorem old_check_eq_when_lengths_agree (k : Kind) (a b : Nat) (oldIds newIds : List Nat)
    (h : (a == b) = (oldIds.length == newIds.length)) :
    checkSubgroupOld k a b oldIds newIds = checkSubgroup k oldIds newIds := by
  simp [checkSubgroupOld, checkSubgroup, h]

/-! ### non-vacuity -/

-- reinit: same identities in another order; hypotheses satisfiable
example : [1, 2, 3].Nodup ∧ [3, 1, 2].Nodup ∧ checkSubgroup .reinit [1, 2, 3] [3, 1, 2] = true := by
  decide
example : checkSubgroup .reinit [1, 2, 3] [1, 2] = false := by decide
example : checkSubgroup .reinit [1, 2, 3] [1, 2, 4] = false := by decide
-- `Nodup` is needed for the right-to-left reading: duplicates satisfy the count test
example : checkSubgroup .reinit [1, 2, 3] [1, 1, 2] = true ∧ ¬ [1, 1, 2].Nodup := by decide
-- branch: subset
example : checkSubgroup .branch [1, 2, 3] [3, 1] = true := by decide
example : checkSubgroup .branch [1, 2, 3] [3, 4] = false := by decide
example : checkSubgroup .branch [1, 2, 3] [1, 2, 3, 4] = false := by decide
-- superset / replaced: hypotheses satisfiable
example : (4 : Nat) ∉ [1, 2, 3] ∧ checkSubgroup .branch [1, 2, 3] ([1, 2, 3] ++ 4 :: [5]) = false := by
  decide
example : (9 : Nat) ∉ [1] ++ 2 :: [3] ∧
    checkSubgroup .reinit ([1] ++ 2 :: [3]) ([1] ++ 9 :: [3]) = false := by decide
-- join
example : joinChecks .reinit [1, 2] [2, 1] ⟨1, 3, 0, 77, 5⟩ ⟨1, 3, 1, 77, 5⟩ = .ok () := rfl
example : joinChecks .branch [1, 2] [2] ⟨1, 3, 0, 77, 5⟩ ⟨1, 3, 1, 78, 5⟩ = .ok () := rfl
example : joinChecks .reinit [1, 2] [2, 3] ⟨1, 3, 0, 77, 5⟩ ⟨1, 3, 1, 77, 5⟩ = .error .notASubgroup := rfl
example : joinChecks .reinit [1, 2] [2, 1] ⟨1, 3, 0, 77, 5⟩ ⟨2, 3, 1, 77, 5⟩ =
    .error .protocolVersionMismatch := rfl
example : joinChecks .reinit [1, 2] [2, 1] ⟨1, 3, 0, 77, 5⟩ ⟨1, 4, 1, 77, 5⟩ =
    .error .cipherSuiteMismatch := rfl
example : joinChecks .reinit [1, 2] [2, 1] ⟨1, 3, 0, 77, 5⟩ ⟨1, 3, 2, 77, 5⟩ =
    .error .initialEpochNotOne := rfl
example : joinChecks .reinit [1, 2] [2, 1] ⟨1, 3, 0, 77, 5⟩ ⟨1, 3, 1, 78, 5⟩ =
    .error .groupIdMismatch := rfl
example : joinChecks .reinit [1, 2] [2, 1] ⟨1, 3, 0, 77, 5⟩ ⟨1, 3, 1, 77, 6⟩ =
    .error .reInitExtensionsMismatch := rfl
-- the deviations the harness constructs (announced suite 1, successor of suite 3, Welcome for epoch 2 ...)
example : joinChecks .reinit [1, 2] [2, 1] ⟨1, 1, 0, 0, 0⟩ ⟨1, 3, 2, 1, 1⟩ = .error .cipherSuiteMismatch := rfl
example : joinChecks .reinit [1, 2] [2, 1] ⟨1, 1, 0, 0, 0⟩ ⟨1, 1, 3, 1, 1⟩ = .error .initialEpochNotOne := rfl
example : joinChecks .branch [1, 2] [2] ⟨1, 1, 0, 0, 0⟩ ⟨2, 3, 4, 1, 0⟩ = .error .protocolVersionMismatch := rfl
example : joinChecks .branch [1, 2] [2] ⟨1, 1, 0, 0, 0⟩ ⟨1, 1, 2, 1, 0⟩ = .error .initialEpochNotOne := rfl
-- `late_welcome_rejected`, `other_suite_rejected`: hypotheses satisfiable
example : (0 < 1) ∧ (⟨1, 1, 2, 0, 0⟩ : Params).epoch = 1 + 1 := by decide
-- freeze
example : commitVerdict false .build = .ok () ∧ commitVerdict true .process = .error .groupUsedAfterReInit :=
  ⟨rfl, rfl⟩
example : (OldGroup.run ⟨4, false⟩ [(.build, false), (.process, true), (.build, false), (.process, true)]) =
    (⟨6, true⟩, [true, true, false, false]) := by decide
-- error precedence: everything wrong at once reports the membership first
example : joinChecks .reinit [1, 2] [2, 3] ⟨1, 3, 0, 77, 5⟩ ⟨2, 4, 2, 78, 6⟩ = .error .notASubgroup := rfl

end MlsVerif.Props.C17
