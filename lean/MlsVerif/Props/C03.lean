import MlsVerif.Proofs.Framing
import MlsVerif.Props.C09
/-
C03: any modification or forgery of protocol traffic is rejected.

(a) Coverage.  `Gen/Framing.lean` is generated from the Rust source on every run: the field lists of
the wire structures and of what is signed (`*Tbs`), MACed (`tbm`) and used as AEAD associated data
(`*Aad`).  The coverage theorems are closed `decide`s over those lists: an edit of the source that
drops a field from what is authenticated breaks them.

(b) Binding.  `Model/Framing.lean`: messages are field assignments, signature / MAC / AEAD are free
symbols (`Sig.Free` …: unforgeable and collision-free).  For the generated layout (`genLayout`): two
accepted messages with the same authenticator agree on every authenticated field; a signature made
for one `GroupContext` (group id, epoch, tree hash, transcript hash) is rejected under any other;
changing the sender (or any other signed field) invalidates the signature.  Dolev–Yao
(`accepted_is_sent`): an attacker that cannot derive a signing (MAC) key can only present signatures
(tags) under it that occur in what honest parties have sent.

(c) Insiders, structural cases of `TreeKem::decap` on the tree model: with the announced keys on
exactly the unfiltered positions of the sender's direct path (`FilterOk`), `decap` never takes the
unchecked index `update_path.nodes[lca_index]` out of bounds; with a too-short path it does
(`decap_oob_on_short_path`), so the length condition is load-bearing.  `validate_update_path`
(`unfilter`; with the check after the loop that every remaining position is filtered out — without it
a too-short path reached `decap` and receivers panicked) rejects paths with too few or too many nodes
(`validate_path_rejects_short`, `validate_path_rejects_long`, `validate_path_establishes`) and its
result, padded, is `FilterOk` (`validated_path_filterOk`); `validated_path_no_oob` composes this with
`decap_no_oob` for the list as the Rust code uses it (not padded).  (Parent hashes are not part of the
tree model; by reading of `parent_hash_for_leaf` they are recomputed from the keys present after the
update, so they do not enforce the length when the missing top nodes are non-blank.)
-/
namespace MlsVerif.Props.C03
open MlsVerif.Framing MlsVerif.Gen.Framing

/-! ### (a) coverage of the wire structures by what is signed / MACed / associated data -/

/-- `PublicMessage`: every wire field is the content (signed), the auth data (the signature itself
and the confirmation tag; MACed) or the membership tag (the MAC); the MAC covers TBS ‖ auth; the TBS
covers protocol version, wire format, the whole `FramedContent` and the `GroupContext`. -/
theorem public_fields_covered :
    (∀ f ∈ publicMessage, f = f_content ∨ f = f_auth ∨ f = f_membership_tag) ∧
    f_content ∈ tbs ∧
    (∀ f ∈ authData, f = f_signature ∨ f = f_confirmation_tag) ∧
    f_signature ∈ authData ∧ f_confirmation_tag ∈ authData ∧
    tbm = [f_content_tbs, f_auth] ∧
    f_protocol_version ∈ tbs ∧ f_wire_format ∈ tbs ∧ f_context ∈ tbs ∧
    (∀ f ∈ framedContent, f ∈ signedFields) ∧
    (∀ f ∈ tbs, f ≠ f_content → f ∈ signedFields) ∧
    f_signature ∉ signedFields ∧ f_membership_tag ∉ signedFields ∧ f_membership_tag ∉ authData := by
  decide

/-- the wire fields of a `PublicMessage`, composites expanded: `FramedContent`'s fields, the
signature, the confirmation tag, the membership tag -/
def wireFields : List Nat :=
  expandField f_auth authData (expandField f_content framedContent publicMessage)

/-- every wire field is signed, or MACed, or is the MAC -/
theorem wire_fields_covered :
    ∀ f ∈ wireFields, (f ∈ signedFields ∧ f ≠ f_context) ∨ f ∈ authData ∨ f = f_membership_tag := by
  decide

/-- `PrivateMessage`: every clear field is in the associated data of the content AEAD; the sender
data AEAD binds group id, epoch and content type. -/
theorem private_fields_covered :
    privateMessage.filter (fun f => f ≠ f_encrypted_sender_data ∧ f ≠ f_ciphertext) = privateContentAad ∧
    (∀ f ∈ senderDataAad, f ∈ privateContentAad) ∧
    f_group_id ∈ senderDataAad ∧ f_epoch ∈ senderDataAad ∧ f_content_type ∈ senderDataAad ∧
    f_authenticated_data ∈ privateContentAad := by
  decide

/-- `GroupInfo`: everything but the signature is signed -/
theorem group_info_covered : groupInfo.filter (· ≠ f_signature) = groupInfoTbs ∧
    f_signature ∈ groupInfo ∧ f_confirmation_tag ∈ groupInfoTbs := by decide

/-- `KeyPackage`: everything but the signature is signed -/
theorem key_package_covered : keyPackage.filter (· ≠ f_signature) = keyPackageTbs ∧
    f_signature ∈ keyPackage := by decide

/-- `LeafNode`: everything but the signature is signed, and the signature also binds the group id and
the leaf index (for update / commit leaves) -/
theorem leaf_node_covered :
    leafNode.filter (· ≠ f_signature) = leafNodeTbs.take 5 ∧
    f_group_id ∈ leafNodeTbs ∧ f_leaf_index ∈ leafNodeTbs ∧ f_signature ∈ leafNode := by decide

/-- the generated layout satisfies the side conditions of the binding theorems: the context slot is
signed; signature and membership tag are not part of what they authenticate -/
theorem genLayout_wf : genLayout.WF := by decide

/-- the sender field is a field of `FramedContent`, hence signed -/
theorem sender_signed : senderField ∈ framedContent ∧ senderField ∈ signedFields ∧
    senderField ≠ f_context ∧ senderField ≠ f_signature := by decide

/-! ### (b) binding -/

/-- equal signatures under a free scheme ⇒ equal key and equal value of every signed field -/
theorem signed_fields_bound (s : Sig) (hs : s.Free) (fields : List Nat) (k k' : Nat) (m m' : Msg)
    (h : s.sign k (tbsVal fields m) = s.sign k' (tbsVal fields m')) :
    k = k' ∧ ∀ f ∈ fields, m f = m' f :=
  MlsVerif.Framing.signed_fields_bound s hs fields k k' m m' h

/-- away from the context slot, completing a message with the receiver's context changes nothing -/
private theorem unset {m1 m2 : Msg} {c1 c2 f : Nat} (hfc : f ≠ f_context)
    (h : (m1.set f_context c1) f = (m2.set f_context c2) f) : m1 f = m2 f :=
  (set_other m1 _ c1 f hfc).symm.trans (h.trans (set_other m2 _ c2 f hfc))

/-- Two messages accepted in the same receiver state: with equal signature values they agree on
every signed field; with equal membership tags they agree on every signed field and on the auth data
(signature, confirmation tag).  No field of an accepted message can differ from the one that was
signed. -/
theorem public_binding (s : Sig) (h : Mac) (hs : s.Free) (hh : h.Free) (key mkey ctx : Nat)
    (m1 m2 : Msg) (h1 : verifyPublic genLayout s h key mkey ctx m1 = true)
    (h2 : verifyPublic genLayout s h key mkey ctx m2 = true) :
    (m1 f_signature = m2 f_signature → ∀ f ∈ signedFields, f ≠ f_context → m1 f = m2 f) ∧
    (m1 f_membership_tag = m2 f_membership_tag →
      (∀ f ∈ signedFields, f ≠ f_context → m1 f = m2 f) ∧ ∀ f ∈ authData, m1 f = m2 f) := by
  constructor
  · intro e f hf hfc
    exact unset hfc ((sig_binding genLayout s h hs _ _ _ _ _ _ _ _ h1 h2 e).2 f hf)
  · intro e
    have := tag_binding genLayout s h hh _ _ _ _ _ _ _ _ h1 h2 e
    exact ⟨fun f hf hfc => unset hfc (this.2.1 f hf), this.2.2⟩

/-- … at different receivers (different keys looked up, different membership keys, different
contexts): equal signature values force the same signer key and the same context value, and agreement
on all signed fields -/
theorem public_binding_any_receiver (s : Sig) (h : Mac) (hs : s.Free) (k1 k2 mk1 mk2 c1 c2 : Nat)
    (m1 m2 : Msg) (h1 : verifyPublic genLayout s h k1 mk1 c1 m1 = true)
    (h2 : verifyPublic genLayout s h k2 mk2 c2 m2 = true) (e : m1 f_signature = m2 f_signature) :
    k1 = k2 ∧ c1 = c2 ∧ ∀ f ∈ signedFields, f ≠ f_context → m1 f = m2 f := by
  have hb := sig_binding genLayout s h hs _ _ _ _ _ _ _ _ h1 h2 e
  refine ⟨hb.1, ?_, fun f hf hfc => ?_⟩
  · exact (set_same m1 _ c1).symm.trans ((hb.2 f_context genLayout_wf.ctx_signed).trans
      (set_same m2 _ c2))
  · exact unset hfc (hb.2 f hf)

/-- A message accepted with the membership tag of an honestly sent message *is* that message, on
every wire field (content fields, signature, confirmation tag, membership tag). -/
theorem accepted_matches_sent (s : Sig) (h : Mac) (hh : h.Free) (key mkey ctx key' mkey' : Nat)
    (m0 m : Msg) (hacc : verifyPublic genLayout s h key' mkey' ctx m = true)
    (e : m f_membership_tag = (signPublic genLayout s h key mkey ctx m0) f_membership_tag) :
    ∀ f ∈ wireFields, m f = (signPublic genLayout s h key mkey ctx m0) f := by
  have h0 := verify_signPublic genLayout s h genLayout_wf key mkey ctx m0
  have hb := tag_binding genLayout s h hh _ _ _ _ _ _ _ _ hacc h0 e
  intro f hf
  rcases wire_fields_covered f hf with ⟨hs, hfc⟩ | ha | ht
  · exact unset hfc (hb.2.1 f hs)
  · exact hb.2.2 f ha
  · rw [ht]; exact e

/-- the honest message itself is accepted (the statements above are not vacuous) -/
theorem honest_accepted (s : Sig) (h : Mac) (key mkey ctx : Nat) (m : Msg) :
    verifyPublic genLayout s h key mkey ctx (signPublic genLayout s h key mkey ctx m) = true :=
  verify_signPublic genLayout s h genLayout_wf key mkey ctx m

/-- Cross-epoch / cross-group replay: a message signed for context `c` is rejected by every receiver
whose context value is `c' ≠ c`, whatever signature key and membership key that receiver uses.  (The
`GroupContext` contains group id, epoch, tree hash and confirmed transcript hash.) -/
theorem replay_other_context_rejected (s : Sig) (h : Mac) (hs : s.Free)
    (key mkey c key' mkey' c' : Nat) (m : Msg) (hne : c' ≠ c) :
    verifyPublic genLayout s h key' mkey' c' (signPublic genLayout s h key mkey c m) = false :=
  other_context_rejected genLayout s h hs genLayout_wf.ctx_signed key key' mkey' c c' m _
    (signPublic_signature genLayout s h genLayout_wf key mkey c m) hne

/-- the same for any message carrying a signature that anyone made over a TBS with context `c` -/
theorem replay_other_context_rejected' (s : Sig) (h : Mac) (hs : s.Free) (k key' mkey' c c' : Nat)
    (m0 m : Msg) (hm : m f_signature = s.sign k (tbsVal signedFields (m0.set f_context c)))
    (hne : c' ≠ c) : verifyPublic genLayout s h key' mkey' c' m = false :=
  other_context_rejected genLayout s h hs genLayout_wf.ctx_signed k key' mkey' c c' m0 m hm hne

/-- Changing any field of `FramedContent` (group id, epoch, sender, authenticated data, content) of
an accepted message, keeping its signature, makes it rejected under every key. -/
theorem modified_content_rejected (s : Sig) (h : Mac) (hs : s.Free) (k mk c k' mk' : Nat) (m : Msg)
    (f v : Nat) (hf : f ∈ framedContent) (h1 : verifyPublic genLayout s h k mk c m = true)
    (hv : v ≠ m f) : verifyPublic genLayout s h k' mk' c (m.set f v) = false := by
  have hall : ∀ f ∈ framedContent, f ∈ signedFields ∧ f ≠ f_context ∧ f ≠ f_signature := by decide
  obtain ⟨h2, h3, h4⟩ := hall f hf
  exact modified_field_rejected genLayout s h hs k mk c k' mk' m f v h2 h3 h4 h1 hv

/-- Re-attribution: changing the sender of an accepted message invalidates the signature — also
under the key of the newly claimed sender (`k'` arbitrary). -/
theorem reattribution_rejected (s : Sig) (h : Mac) (hs : s.Free) (k mk c k' mk' : Nat) (m : Msg)
    (v : Nat) (h1 : verifyPublic genLayout s h k mk c m = true) (hv : v ≠ m senderField) :
    verifyPublic genLayout s h k' mk' c (m.set senderField v) = false :=
  modified_content_rejected s h hs k mk c k' mk' m senderField v sender_signed.1 h1 hv

/-- `PrivateMessage`: one content ciphertext opened under two received messages (e.g. the original and
a copy with altered header): same key, nonce and plaintext, and the messages agree on every clear
field of the `PrivateMessage`. -/
theorem private_binding (a : Aead) (ha : a.Free) (k k' n n' : Nat) (m m' : Msg) (c p p' : Nat)
    (h : opensTo a privateContentAad k n m c p) (h' : opensTo a privateContentAad k' n' m' c p') :
    k = k' ∧ n = n' ∧ p = p' ∧
    ∀ f ∈ privateMessage, f ≠ f_encrypted_sender_data → f ≠ f_ciphertext → m f = m' f := by
  have hb := aead_fields_bound a ha privateContentAad k k' n n' m m' c p p' h h'
  refine ⟨hb.1, hb.2.1, hb.2.2.1, fun f hf h1 h2 => hb.2.2.2 f ?_⟩
  have hall : ∀ f ∈ privateMessage, f ≠ f_encrypted_sender_data → f ≠ f_ciphertext →
      f ∈ privateContentAad := by decide
  exact hall f hf h1 h2

/-- the same for the sender-data ciphertext: it is bound to group id, epoch and content type -/
theorem sender_data_binding (a : Aead) (ha : a.Free) (k k' n n' : Nat) (m m' : Msg) (c p p' : Nat)
    (h : opensTo a senderDataAad k n m c p) (h' : opensTo a senderDataAad k' n' m' c p') :
    k = k' ∧ n = n' ∧ p = p' ∧ m f_group_id = m' f_group_id ∧ m f_epoch = m' f_epoch ∧
      m f_content_type = m' f_content_type := by
  have hb := aead_fields_bound a ha senderDataAad k k' n n' m m' c p p' h h'
  exact ⟨hb.1, hb.2.1, hb.2.2.1, hb.2.2.2 _ (by decide), hb.2.2.2 _ (by decide),
    hb.2.2.2 _ (by decide)⟩

/-! ### (b) Dolev–Yao: what is accepted was sent -/

/-- An attacker knowing `K` that cannot derive the signing key `k` can only present signatures under
`k` that occur in `K`: the signature of an accepted message was produced by the honest signer. -/
theorem accepted_is_sent (K : List T) (k : Nat) (hk : ¬ Derivable K (.key k)) (t : T)
    (h : Derivable K (.sig k t)) : ∃ u ∈ K, Subterm (.sig k t) u :=
  sig_seen K k hk t h

/-- the same for membership tags: without the membership key (a non-member), only tags that members
have sent -/
theorem accepted_tag_is_sent (K : List T) (k : Nat) (hk : ¬ Derivable K (.key k)) (t : T)
    (h : Derivable K (.mac k t)) : ∃ u ∈ K, Subterm (.mac k t) u :=
  mac_seen K k hk t h

/-- keys are not computable: a derivable key occurs in `K` (was leaked) -/
theorem derivable_key_leaked (K : List T) (k : Nat) (h : Derivable K (.key k)) :
    ∃ u ∈ K, Subterm (.key k) u :=
  key_seen K k h

/-! ### (c) insiders: `decap` and the length of the announced path -/

section Decap
open MlsVerif.Tree MlsVerif.TreeMath

/-- Under the hypotheses of `C09.commit_receiver_any_path` — in particular `FilterOk`: the announced
keys sit exactly on the unfiltered positions of the sender's direct path, so the path list has the
full length — `decap` succeeds; it does not run into `update_path.nodes[lca_index]` out of bounds
(nor into any other unchecked index), and the LCA entry carries a key. -/
theorem decap_no_oob {t0 t1 t' : Tree} {e : Edits} {added : List Nat} {sender : Nat}
    {nl : Leaf} {pk : List (Option Nat)} (hw : WF t0) (hb : batchEdit t0 e = .ok (added, t1))
    {p : Priv} (hk : KeyInv t0 p) (hm : ∃ L, get t0 (2 * p.self) = some (.leaf L))
    (ht : p.self ∉ e.touched) (hne : p.self ≠ sender) (hf : FilterOk t1 sender pk)
    (ha : applyUpdatePath t1 sender nl pk = .ok t') :
    decap t' (provisionalPriv t1 p none) sender pk added ≠ .error .indexOutOfBounds ∧
    (∃ d, decap t' (provisionalPriv t1 p none) sender pk added = .ok d) ∧
    ∃ k, pk[leafLcaLevel (2 * p.self) (2 * sender) - 2]? = some (some k) := by
  obtain ⟨d, hd, -, -⟩ := C09.commit_receiver_any_path hw hb hk hm ht hne hf ha
  refine ⟨(by rw [hd]; intro h; cases h), ⟨d, hd⟩, ?_⟩
  have hd' := hd
  rw [Dec.decap_eq] at hd'
  simp only [provisionalPriv_self] at hd'
  cases hpk : pk[leafLcaLevel (2 * p.self) (2 * sender) - 2]? with
  | none => rw [hpk] at hd'; revert hd'; split <;> (try split) <;> (try split) <;> (try split) <;> (try split) <;> intro h <;> cases h
  | some x =>
    cases x with
    | none => rw [hpk] at hd'; revert hd'; split <;> (try split) <;> (try split) <;> (try split) <;> (try split) <;> intro h <;> cases h
    | some k => exact ⟨k, rfl⟩

/-- the steps of `decap` before the look-up in the announced path do not depend on the path: if
`decap` succeeds for one path list, then for any other list `pk'` it fails exactly according to the
entry at the LCA index: missing ⇒ `indexOutOfBounds` (the Rust panic), blank ⇒
`LcaNotFoundInDirectPath`. -/
theorem decap_entry_cases {t : Tree} {p : Priv} {sender : Nat} {pk pk' : List (Option Nat)}
    {added : List Nat} {d : DecapOut} (h : decap t p sender pk added = .ok d) :
    (pk'[leafLcaLevel (2 * p.self) (2 * sender) - 2]? = none →
      decap t p sender pk' added = .error .indexOutOfBounds) ∧
    (pk'[leafLcaLevel (2 * p.self) (2 * sender) - 2]? = some none →
      decap t p sender pk' added = .error .lcaNotFoundInDirectPath) ∧
    (∀ k, pk'[leafLcaLevel (2 * p.self) (2 * sender) - 2]? = some (some k) →
      ∃ d', decap t p sender pk' added = .ok d' ∧ d'.slot = d.slot ∧ d'.ctPos = d.ctPos) := by
  rw [Dec.decap_eq] at h
  simp only [Dec.decap_eq]
  simp only at h
  split at h
  · cases h
  split at h
  · cases h
  split at h
  · cases h
  split at h
  · cases h
  split at h
  · cases h
  split at h
  · cases h
  · cases h
  split at h
  · cases h
    simp only [if_neg ‹¬ leafLcaLevel (2 * p.self) (2 * sender) < 2›]
    exact ⟨fun e => by rw [e], fun e => by rw [e], fun k e => by rw [e]; exact ⟨_, rfl, rfl, rfl⟩⟩
  · cases h

/-- a blank entry at the LCA index is never accepted -/
theorem blank_lca_entry_rejected (t : Tree) (p : Priv) (sender : Nat) (pk : List (Option Nat))
    (added : List Nat) (h : pk[leafLcaLevel (2 * p.self) (2 * sender) - 2]? = some none) :
    ∀ d, decap t p sender pk added ≠ .ok d := by
  intro d hd
  have := (decap_entry_cases (pk' := pk) hd).2.1 h
  rw [hd] at this
  cases this

/-- a path list that ends before the LCA index is never accepted by the model (in Rust: a panic) -/
theorem short_path_never_ok (t : Tree) (p : Priv) (sender : Nat) (pk : List (Option Nat))
    (added : List Nat) (h : pk.length ≤ leafLcaLevel (2 * p.self) (2 * sender) - 2) :
    ∀ d, decap t p sender pk added ≠ .ok d := by
  intro d hd
  have := (decap_entry_cases (pk' := pk) hd).1 (List.getElem?_eq_none h)
  rw [hd] at this
  cases this

/-- What `validate_update_path` (`unfilter`, `none` = `WrongPathLen`) establishes about the list
handed to `apply_update_path` and `decap`: it matches the filter of the sender's direct path as far
as it goes and is not longer, it carries the announced nodes, every position beyond its end is
filtered out, and there are exactly as many nodes as unfiltered positions. -/
theorem validate_path_establishes (t : Tree) (sender : Nat) (nodes : List Nat)
    (pk : List (Option Nat)) (h : unfilter (filtered t sender) nodes = some pk) :
    pk.map Option.isNone = (filtered t sender).take pk.length ∧
    pk.length ≤ (filtered t sender).length ∧ pk.filterMap id = nodes ∧
    ((filtered t sender).drop pk.length).all id = true ∧
    nodes.length = ((filtered t sender).filter (!·)).length :=
  unfilter_prefix _ _ _ h

/-- a path with fewer nodes than unfiltered positions is rejected (`WrongPathLen`) … -/
theorem validate_path_rejects_short (fs : List Bool) (nodes : List Nat)
    (h : nodes.length < (fs.filter (!·)).length) : unfilter fs nodes = none :=
  unfilter_wrong_count fs nodes (by omega)

/-- … and so is one with more -/
theorem validate_path_rejects_long (fs : List Bool) (nodes : List Nat)
    (h : (fs.filter (!·)).length < nodes.length) : unfilter fs nodes = none :=
  unfilter_wrong_count fs nodes (by omega)

/-- a path with the right number of nodes is accepted (validation is not vacuous) -/
theorem validate_path_accepts_right : ∀ (fs : List Bool) (nodes : List Nat),
    nodes.length = (fs.filter (!·)).length → ∃ pk, unfilter fs nodes = some pk
  | [], [], _ => ⟨[], rfl⟩
  | [], _ :: _, h => by simp at h
  | true :: fs, [], h => by
    obtain ⟨pk, hpk⟩ := validate_path_accepts_right fs [] (by simpa using h)
    have e : pk = [] := by cases fs <;> simp_all [unfilter]
    subst e
    refine ⟨[], ?_⟩
    cases fs with
    | nil => rfl
    | cons b fs => simp only [unfilter, List.all_cons, id] at hpk ⊢; simpa using hpk
  | false :: fs, [], h => by simp at h
  | true :: fs, n :: ns, h => by
    obtain ⟨pk, hpk⟩ := validate_path_accepts_right fs (n :: ns) (by simpa using h)
    exact ⟨none :: pk, by simp [unfilter, hpk]⟩
  | false :: fs, n :: ns, h => by
    obtain ⟨pk, hpk⟩ := validate_path_accepts_right fs ns (by simpa using h)
    exact ⟨some n :: pk, by simp [unfilter, hpk]⟩

/-- A validated path, padded with blanks for the trailing filtered positions (where no receiver's
LCA can lie), is `FilterOk` — no extra hypothesis. -/
theorem validated_path_filterOk (t : Tree) (sender : Nat) (nodes : List Nat)
    (pk : List (Option Nat)) (h : unfilter (filtered t sender) nodes = some pk) :
    FilterOk t sender (pk ++ List.replicate ((filtered t sender).length - pk.length) none) :=
  unfilter_full _ _ _ h

/-- trailing blanks do nothing in `apply_update_path` (a `zip`, and a blank entry is skipped) -/
theorem applyUpdatePath_pad (t : Tree) (sender : Nat) (nl : Leaf) (pk : List (Option Nat)) (n : Nat) :
    applyUpdatePath t sender nl (pk ++ List.replicate n none) = applyUpdatePath t sender nl pk := by
  have key : ∀ (f : Tree → Option Nat × Nat × Nat → Except Err Tree),
      (∀ t c, f t (none, c) = .ok t) →
      ∀ (pk : List (Option Nat)) (path : List (Nat × Nat)) (init : Tree),
      ((pk ++ List.replicate n none).zip path).foldlM f init = (pk.zip path).foldlM f init := by
    intro f hf pk
    induction pk with
    | nil =>
      intro path init
      simp only [List.nil_append, List.zip_nil_left, List.foldlM_nil]
      induction n generalizing path with
      | zero => rfl
      | succ n ih =>
        cases path with
        | nil => rfl
        | cons c path =>
          rw [List.replicate_succ, List.zip_cons_cons, List.foldlM_cons, hf]
          exact ih path
    | cons x pk ih =>
      intro path init
      cases path with
      | nil => rfl
      | cons c path =>
        simp only [List.cons_append, List.zip_cons_cons, List.foldlM_cons]
        congr 1
        funext t'
        exact ih path t'
  unfold applyUpdatePath
  simp only [bind, Except.bind]
  split
  · exact key _ (fun _ _ => rfl) _ _ _
  · rfl

/-- The composition, for the list exactly as the Rust code uses it (ending at the last announced
node, not padded): under the hypotheses of `C09.commit_receiver_any_path`, with `pk` the result of
`validate_update_path` in place of the `FilterOk` hypothesis, `decap` succeeds — in particular it
never takes `update_path.nodes[lca_index]` out of bounds. -/
theorem validated_path_no_oob {t0 t1 t' : Tree} {e : Edits} {added : List Nat} {sender : Nat}
    {nl : Leaf} {nodes : List Nat} {pk : List (Option Nat)} (hw : WF t0)
    (hb : batchEdit t0 e = .ok (added, t1))
    {p : Priv} (hk : KeyInv t0 p) (hm : ∃ L, get t0 (2 * p.self) = some (.leaf L))
    (ht : p.self ∉ e.touched) (hne : p.self ≠ sender)
    (hv : unfilter (filtered t1 sender) nodes = some pk)
    (ha : applyUpdatePath t1 sender nl pk = .ok t') :
    decap t' (provisionalPriv t1 p none) sender pk added ≠ .error .indexOutOfBounds ∧
    (∃ d, decap t' (provisionalPriv t1 p none) sender pk added = .ok d) ∧
    ∃ k, pk[leafLcaLevel (2 * p.self) (2 * sender) - 2]? = some (some k) := by
  have hf := validated_path_filterOk t1 sender nodes pk hv
  have ha' := (applyUpdatePath_pad t1 sender nl pk
    ((filtered t1 sender).length - pk.length)).trans ha
  obtain ⟨-, ⟨d, hd⟩, k, hk'⟩ := decap_no_oob hw hb hk hm ht hne hf ha'
  have hpk : pk[leafLcaLevel (2 * p.self) (2 * sender) - 2]? = some (some k) := by
    rw [List.getElem?_append] at hk'
    split at hk'
    · exact hk'
    · rw [List.getElem?_replicate] at hk'
      split at hk' <;> cases hk'
  have hself : (provisionalPriv t1 p none).self = p.self := provisionalPriv_self t1 p none
  have hc := (decap_entry_cases (pk' := pk) hd).2.2 k (by rw [hself]; exact hpk)
  obtain ⟨d', hd', -, -⟩ := hc
  exact ⟨(by rw [hd']; intro h; cases h), ⟨d', hd'⟩, k, hpk⟩

/-- the same for the padded list (`decap_no_oob` composed with `validated_path_filterOk`) -/
theorem validated_padded_path_no_oob {t0 t1 t' : Tree} {e : Edits} {added : List Nat} {sender : Nat}
    {nl : Leaf} {nodes : List Nat} {pk : List (Option Nat)} (hw : WF t0)
    (hb : batchEdit t0 e = .ok (added, t1))
    {p : Priv} (hk : KeyInv t0 p) (hm : ∃ L, get t0 (2 * p.self) = some (.leaf L))
    (ht : p.self ∉ e.touched) (hne : p.self ≠ sender)
    (hv : unfilter (filtered t1 sender) nodes = some pk)
    (ha : applyUpdatePath t1 sender nl
      (pk ++ List.replicate ((filtered t1 sender).length - pk.length) none) = .ok t') :
    decap t' (provisionalPriv t1 p none) sender
      (pk ++ List.replicate ((filtered t1 sender).length - pk.length) none) added
        ≠ .error .indexOutOfBounds :=
  (decap_no_oob hw hb hk hm ht hne (validated_path_filterOk t1 sender nodes pk hv) ha).1

/-! A concrete full tree with four members; member 0 commits with new leaf key 300. -/

private def Lf (i : Nat) : Option Node := some (.leaf ⟨i, 100 + i, 200 + i⟩)
private def Pa (k : Nat) : Option Node := some (.parent ⟨k, []⟩)
/-- the tree after the proposals (none) -/
def t4 : Tree := [Lf 0, Pa 10, Lf 1, Pa 11, Lf 2, Pa 12, Lf 3]
/-- … after a full path `[1000, 1001]` of member 0 -/
def t4full : Tree := [some (.leaf ⟨0, 300, 200⟩), Pa 1000, Lf 1, Pa 1001, Lf 2, Pa 12, Lf 3]
/-- … after the short path `[1000]`: the root keeps its old key -/
def t4short : Tree := [some (.leaf ⟨0, 300, 200⟩), Pa 1000, Lf 1, Pa 11, Lf 2, Pa 12, Lf 3]
/-- member 3 before the commit: leaf key, key of node 5, root key -/
def p3 : Priv := ⟨3, [some 103, some 12, some 11]⟩

/-- The length condition is load-bearing.  Member 0 announces the path `[1000]`, one entry short of
its direct path (nodes 1 and 3).  `validate_update_path` now rejects it (`unfilter … = none`; before
the fix it rejected only lists that were too long and this one went through).  Were it to reach
them: the model's `applyUpdatePath` — like the Rust one, a `zip` — accepts it and yields a
well-formed tree; it is not `FilterOk`, and `decap` of member 3 (LCA = root, index 1) reaches
`update_path.nodes[1]`: `indexOutOfBounds`, a panic in Rust.  Member 1 (LCA index 0) is unaffected.
With the full path everything succeeds. -/
theorem decap_oob_on_short_path :
    WF t4 ∧ KeyInv t4 p3 ∧
    filtered t4 0 = [false, false] ∧
    -- the short path
    ¬ FilterOk t4 0 [some 1000] ∧
    unfilter (filtered t4 0) [1000] = none ∧
    unfilter (filtered t4 0) [1000, 1001] = some [some 1000, some 1001] ∧
    applyUpdatePath t4 0 ⟨0, 300, 200⟩ [some 1000] = .ok t4short ∧ WF t4short ∧
    leafLcaLevel (2 * 3) (2 * 0) - 2 = 1 ∧
    decap t4short (provisionalPriv t4 p3 none) 0 [some 1000] [] = .error .indexOutOfBounds ∧
    (∃ d, decap t4short (provisionalPriv t4 ⟨1, [some 101, some 10, some 11]⟩ none) 0 [some 1000] []
      = .ok d) ∧
    -- the full path
    FilterOk t4 0 [some 1000, some 1001] ∧
    applyUpdatePath t4 0 ⟨0, 300, 200⟩ [some 1000, some 1001] = .ok t4full ∧
    decap t4full (provisionalPriv t4 p3 none) 0 [some 1000, some 1001] [] =
      .ok ⟨1, 0, ⟨3, [some 103, some 12, some 1001, none]⟩⟩ ∧
    -- a blank entry at the LCA index
    decap t4full (provisionalPriv t4 p3 none) 0 [some 1000, none] [] =
      .error .lcaNotFoundInDirectPath := by
  refine ⟨by decide +kernel, by decide +kernel, by decide +kernel, by decide +kernel,
    by decide +kernel, by decide +kernel, by decide +kernel, by decide +kernel, by decide +kernel,
    by decide +kernel,
    ⟨⟨0, 0, ⟨1, [some 101, some 1000, some 11, none]⟩⟩, by decide +kernel⟩,
    by decide +kernel, by decide +kernel, by decide +kernel, by decide +kernel⟩

end Decap

/-! ### Non-vacuity -/

section Examples

/-- free signature and MAC over `Nat`: an injective pairing of key and encoded input
(`Proofs/Framing.lean` §6), so `Sig.Free` / `Mac.Free` are satisfiable -/
private def toySig : Sig := ⟨fun k t => natPair k (encList t)⟩
private def toyMac : Mac := ⟨fun k t => natPair k (encList t)⟩

private theorem toySig_free : toySig.Free := by
  intro k k' t t' h
  have := natPair_inj _ _ _ _ h
  exact ⟨this.1, encList_inj _ _ this.2⟩

private theorem toyMac_free : toyMac.Free := toySig_free

/-- a message: group id 7, epoch 3, sender 1, content 42, confirmation tag 99 -/
private def msg0 : Msg := fun f =>
  if f = f_group_id then 7 else if f = f_epoch then 3 else if f = senderField then 1
  else if f = f_content then 42 else if f = f_confirmation_tag then 99 else 0

-- the honest message is accepted in the sender's context, rejected in another epoch's context,
-- rejected when re-attributed to sender 2
example : verifyPublic genLayout toySig toyMac 501 77 1000 (signPublic genLayout toySig toyMac 501 77 1000 msg0) = true :=
  honest_accepted _ _ _ _ _ _
example : verifyPublic genLayout toySig toyMac 501 77 1001 (signPublic genLayout toySig toyMac 501 77 1000 msg0) = false :=
  replay_other_context_rejected _ _ toySig_free _ _ _ _ _ _ _ (by decide)
example : verifyPublic genLayout toySig toyMac 502 77 1000
    ((signPublic genLayout toySig toyMac 501 77 1000 msg0).set senderField 2) = false :=
  reattribution_rejected _ _ toySig_free 501 77 1000 502 77 _ 2 (honest_accepted _ _ _ _ _ _)
    (by rw [signPublic_other _ _ _ _ _ _ _ _ (by decide) (by decide) (by decide)]; decide)
example := accepted_matches_sent toySig toyMac toyMac_free 501 77 1000 501 77 msg0

-- the signed fields, spelled out for the current source: protocol version, wire format,
-- group id, epoch, sender, authenticated data, content, context
example : signedFields.length = tbs.length - 1 + framedContent.length := by decide

/-- Dolev–Yao: the attacker has seen one message signed under key 7 and holds key 9 -/
private def K0 : List T :=
  [.pair (.atom 1) (.sig 7 (.pair (.atom 1) (.atom 100))), .key 9]

example : ¬ Derivable K0 (.key 7) := key_not_derivable K0 7 (by decide)
-- it can replay the signature it has seen, and sign anything under the key it holds …
example : Derivable K0 (.sig 7 (.pair (.atom 1) (.atom 100))) :=
  .snd (a := .atom 1) (.known (by decide))
example : Derivable K0 (.sig 9 (.atom 5)) := .sign (.known (by decide)) (.atom 5)
-- … but not a signature under key 7 on any other content (e.g. the same content in another context)
example : ¬ Derivable K0 (.sig 7 (.pair (.atom 1) (.atom 101))) := fun h =>
  absurd (accepted_is_sent K0 7 (key_not_derivable K0 7 (by decide)) _ h)
    (show ¬ Seen K0 _ by decide)

end Examples

end MlsVerif.Props.C03
