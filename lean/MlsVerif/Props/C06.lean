/-
C06 — a group restored from storage is the same group; both storage providers expose the same stored
history.

Property theorems about the prior-epoch repository model `MlsVerif.Repo` (`MlsVerif/Model/Repo.lean`: the
repository of `group/state_repo.rs` in front of the in-memory deque and of the SQLite table).  The invariant
`Inv`, the operations `Op` / `step` / `run` and the helper lemmas are in `MlsVerif/Proofs/Repo.lean`.
All statements hold for all repositories, retention limits ≥ 1, ids, payloads and operation lists (no bounds).
-/
import MlsVerif.Proofs.Repo

namespace MlsVerif.Props.C06
open MlsVerif.Repo

/-! ### the invariant holds in every reachable repository -/

/-- `Inv r` spelled out: positive retention limit; stored ids consecutive increasing, at most `ret` of them;
pending ids consecutive increasing; first pending id = last stored id + 1; every cached update has a stored
id, and the cache holds each id once. -/
theorem inv_spelled_out (r : Repo) :
    Inv r ↔
      1 ≤ r.ret ∧
      (∃ a, r.stored.map (·.1) = List.range' a r.stored.length) ∧
      r.stored.length ≤ r.ret ∧
      (∃ b, r.inserts.map (·.1) = List.range' b r.inserts.length) ∧
      (∀ s p, r.stored.getLast? = some s → r.inserts.head? = some p → p.1 = s.1 + 1) ∧
      (∀ x ∈ r.updates, x.1 ∈ r.stored.map (·.1)) ∧
      (r.updates.map (·.1)).Nodup :=
  inv_iff r

theorem inv_empty (b : Backend) (ret : Nat) (h : 1 ≤ ret) : Inv { backend := b, ret := ret } :=
  Repo.inv_empty b ret h

theorem inv_insert {r r' : Repo} {rec : Rec} (h : Inv r) (hok : r.insert rec = .ok r') : Inv r' :=
  Repo.inv_insert h hok

theorem inv_getEpoch {r : Repo} (h : Inv r) (id : Nat) : Inv (r.getEpoch id).2 := Repo.inv_getEpoch h id

/-- every outcome of `write`, for every fault pattern (the first component of the outcome is a result, the
repository is the second) -/
theorem inv_write {r : Repo} (h : Inv r) (failWrite failKp : Bool) : Inv (r.write failWrite failKp).2 :=
  Repo.inv_write h failWrite failKp

theorem inv_reload {r : Repo} (h : Inv r) : Inv r.reload := Repo.inv_reload h

theorem inv_run {r : Repo} (h : Inv r) (ops : List Op) : Inv (run ops r).1 := Repo.inv_run h ops

/-- every repository reachable from an empty one with a positive retention limit satisfies the invariant -/
theorem inv_reachable (b : Backend) (ret : Nat) (hret : 1 ≤ ret) (ops : List Op) :
    Inv (run ops { backend := b, ret := ret }).1 :=
  Repo.inv_reachable b ret hret ops

/-! ### both storage providers expose the same history -/

/-- Under the invariant the back end is unobservable: the same operations on the same repository in front
of the other back end give the same observations (operation results, `max_epoch_id`, stored ids after every
operation) and the same final repository. -/
theorem backends_bisimilar_from {r : Repo} (h : Inv r) (b : Backend) (ops : List Op) :
    (run ops (r.withBackend b)).2 = (run ops r).2 ∧
    (run ops (r.withBackend b)).1 = (run ops r).1.withBackend b := by
  rw [run_withBackend h]; exact ⟨rfl, rfl⟩

/-- The same operations on an empty in-memory store and on an empty SQLite store with the same positive
retention limit give the same observations: `insert` ok / error, the `Option Rec` returned by `get`,
`write` ok / error, and after every operation the storage's `max_epoch_id` and the list of stored ids. -/
theorem backends_bisimilar (ret : Nat) (hret : 1 ≤ ret) (ops : List Op) :
    (run ops { backend := .mem, ret := ret }).2 = (run ops { backend := .sql, ret := ret }).2 :=
  ((backends_bisimilar_from (Repo.inv_empty .mem ret hret) .sql ops).1).symm

/-- … and the same stored history, pending inserts and cache -/
theorem backends_same_state (ret : Nat) (hret : 1 ≤ ret) (ops : List Op) :
    (run ops { backend := .sql, ret := ret }).1.stored = (run ops { backend := .mem, ret := ret }).1.stored ∧
    (run ops { backend := .sql, ret := ret }).1.inserts = (run ops { backend := .mem, ret := ret }).1.inserts ∧
    (run ops { backend := .sql, ret := ret }).1.updates = (run ops { backend := .mem, ret := ret }).1.updates := by
  have := (backends_bisimilar_from (Repo.inv_empty .mem ret hret) .sql ops).2
  have e : ({ backend := .sql, ret := ret } : Repo) = ({ backend := .mem, ret := ret } : Repo).withBackend .sql := rfl
  rw [e, this]
  exact ⟨rfl, rfl, rfl⟩

/-- the three ingredients of the simulation: lookup, update, trim/delete coincide on consecutive ids -/
theorem storage_primitives_agree {d : List Rec} {a : Nat} (h : Consec d a) :
    (∀ id, memGet d id = sqlGet d id) ∧
    (∀ u, memUpdate d u = sqlUpdate d u) ∧
    memMax d = sqlMax d :=
  ⟨memGet_eq_sqlGet h, memUpdate_eq_sqlUpdate h, memMax_eq_sqlMax h⟩

/-- the SQL transaction stores what the in-memory store stores, and never fails (the deque trims on every
write, SQLite only when there are inserts: no difference, the table never holds more than `ret` rows) -/
theorem storage_write_agrees {r : Repo} (h : Inv r) :
    sqlWrite r.stored r.ret r.inserts r.updates = some (memWrite r.stored r.ret r.inserts r.updates) := by
  obtain ⟨a, ha⟩ := h.consec
  exact sqlWrite_eq_memWrite ha h.stored_len r.updates

/-- the index arithmetic of the deque (`epoch_id - front.id`) is the keyed lookup — exactly because the ids
are consecutive -/
theorem mem_get_eq_keyed {r : Repo} (h : Inv r) (id : Nat) :
    memGet r.stored id = r.stored.find? (·.1 == id) := by
  obtain ⟨a, ha⟩ := h.stored_consec
  exact memGet_eq_find ha id

/-- With a duplicated id in the deque the index arithmetic returns another epoch's record: this is how
duplicates (defect F4, repaired in the Rust code) corrupt the in-memory store. -/
theorem mem_get_wrong_without_contiguity :
    memGet [(1, 10), (1, 11), (2, 20)] 2 = some (1, 11) ∧
    [(1, 10), (1, 11), (2, 20)].find? (·.1 == 2) = some ((2, 20) : Rec) := by decide

/-! ### what a load sees is what the last write stored -/

/-- does the operation reach the storage write? (a `write` whose storage call fails does not) -/
def reachesStorage : Op → Bool
  | .write false _ => true
  | _ => false

theorem insert_stored {r r' : Repo} {rec : Rec} (h : r.insert rec = .ok r') : r'.stored = r.stored := by
  rw [insert_eq] at h
  split at h
  · cases h; rfl
  · cases h

theorem getEpoch_stored (r : Repo) (id : Nat) : (r.getEpoch id).2.stored = r.stored := by
  unfold Repo.getEpoch
  repeat' split
  all_goals rfl

theorem step_stored_of_not_write (r : Repo) (op : Op) (h : reachesStorage op = false) :
    (step r op).2.stored = r.stored := by
  cases op with
  | insert rec =>
    show (stepRes r (.insert rec)).2.stored = _
    simp only [stepRes]
    cases hi : r.insert rec with
    | ok r' => exact insert_stored hi
    | error e => rfl
  | get id => exact getEpoch_stored r id
  | write fw fk =>
    cases fw
    · cases h
    · rfl
  | reload => rfl

/-- `insert`, `get`, `reload` and failed storage calls never change the storage -/
theorem no_write_stored_unchanged (ops : List Op) (r : Repo) (h : ∀ op ∈ ops, reachesStorage op = false) :
    (run ops r).1.stored = r.stored := by
  induction ops generalizing r with
  | nil => rfl
  | cons op ops ih =>
    rw [run_cons]
    show (run ops (step r op).2).1.stored = _
    rw [ih _ (fun o ho => h o (List.mem_cons_of_mem _ ho)),
      step_stored_of_not_write r op (h op List.mem_cons_self)]

/-- in particular: if no operation is a `write`, the storage is what it was -/
theorem no_write_op_stored_unchanged (ops : List Op) (r : Repo)
    (h : ∀ op ∈ ops, ∀ fw fk, op ≠ .write fw fk) : (run ops r).1.stored = r.stored := by
  apply no_write_stored_unchanged
  intro op hop
  cases op with
  | write fw fk => exact absurd rfl (h _ hop fw fk)
  | _ => rfl

/-- what a freshly loaded group sees (`reload`) is the storage as of the last write that reached it:
whatever happens after that write (`ops'`: inserts, gets, reloads, failed storage calls) is not in it -/
theorem load_returns_last_write (ops ops' : List Op) (r : Repo)
    (h : ∀ op ∈ ops', reachesStorage op = false) :
    (run (ops ++ ops') r).1.reload.stored = (run ops r).1.stored := by
  rw [run_append]
  exact no_write_stored_unchanged ops' _ h

/-- … and under the invariant that write stored the newest `ret` records of `stored ++ inserts`, with the
cached updates applied; this is the whole state of the reloaded repository -/
theorem load_after_write {r : Repo} (h : Inv r) (fk : Bool) (ops' : List Op)
    (h' : ∀ op ∈ ops', reachesStorage op = false) :
    (run (.write false fk :: ops') r).1.reload =
      { r with stored := memWrite r.stored r.ret r.inserts r.updates, inserts := [], updates := [] } := by
  have hs := no_write_stored_unchanged ops' (step r (.write false fk)).2 h'
  have hb : ∀ (ops : List Op) (r : Repo), (run ops r).1.backend = r.backend ∧ (run ops r).1.ret = r.ret := by
    intro ops
    induction ops with
    | nil => intro r; exact ⟨rfl, rfl⟩
    | cons op ops ih =>
      intro r
      rw [run_cons]
      have := ih (step r op).2
      have hstep : (step r op).2.backend = r.backend ∧ (step r op).2.ret = r.ret := by
        cases op with
        | insert rec =>
          show (stepRes r (.insert rec)).2.backend = _ ∧ (stepRes r (.insert rec)).2.ret = _
          simp only [stepRes]
          cases hi : r.insert rec with
          | ok r' =>
            rw [insert_eq] at hi
            split at hi
            · cases hi; exact ⟨rfl, rfl⟩
            · cases hi
          | error e => exact ⟨rfl, rfl⟩
        | get id =>
          show (r.getEpoch id).2.backend = _ ∧ (r.getEpoch id).2.ret = _
          unfold Repo.getEpoch
          repeat' split
          all_goals exact ⟨rfl, rfl⟩
        | write fw fk =>
          show (r.write fw fk).2.backend = _ ∧ (r.write fw fk).2.ret = _
          rw [write_eq]
          repeat' split
          all_goals exact ⟨rfl, rfl⟩
        | reload => exact ⟨rfl, rfl⟩
      exact ⟨this.1.trans hstep.1, this.2.trans hstep.2⟩
  rw [run_cons]
  have hw : (step r (.write false fk)).2 = r.written := by
    show (r.write false fk).2 = _
    rw [write_of_inv h]; cases fk <;> rfl
  rw [hw] at hs
  obtain ⟨h1, h2⟩ := hb ops' (step r (.write false fk)).2
  rw [hw] at h1 h2
  have key : ∀ x : Repo, x.reload = ⟨x.backend, x.ret, x.stored, [], []⟩ := fun _ => rfl
  rw [hw, key, hs, h1, h2]
  rfl

/-- after a load, `get` answers from storage only -/
theorem reload_then_get (r : Repo) (id : Nat) : (r.reload.getEpoch id).1 = r.storedGet id := by
  rw [getEpoch_eq]
  show (r.reload.getStored id).1 = _
  have e : r.reload.storedGet id = r.storedGet id := rfl
  have u : r.reload.updates = [] := rfl
  unfold Repo.getStored
  rw [u, e, List.find?_nil]
  cases r.storedGet id <;> rfl

/-- … that is, under the invariant, the stored record with this id (for both back ends) -/
theorem reload_then_get_keyed {r : Repo} (h : Inv r) (id : Nat) :
    (r.reload.getEpoch id).1 = r.stored.find? (·.1 == id) := by
  rw [reload_then_get, storedGet_eq_find h]

/-- a group restored right after a fault-free write is the same group: nothing was only in memory -/
theorem write_then_reload_same {r : Repo} (h : Inv r) :
    (r.write false false).1 = .ok () ∧ (r.write false false).2.reload = (r.write false false).2 := by
  rw [write_ok h]; exact ⟨rfl, rfl⟩

/-- before the write, a restore loses exactly the pending epochs: every id answered after the restore was
answered before it, with the stored ids being the ones that survive -/
theorem reload_keeps_stored {r : Repo} (h : Inv r) (id : Nat) :
    (r.reload.getEpoch id).1 ≠ none ↔ id ∈ ids r.stored := by
  obtain ⟨a, ha⟩ := h.stored_consec
  rw [reload_then_get_keyed h, ha.find?_ne_none]

/-! ### non-vacuity: concrete repositories and runs -/

/-- a repository with stored epochs 3, 4, a touched epoch 3 in the cache and pending epochs 5, 6 -/
def exRepo (b : Backend) : Repo :=
  { backend := b, ret := 3, stored := [(3, 30), (4, 40)], inserts := [(5, 50), (6, 60)], updates := [(3, 30)] }

theorem exRepo_inv (b : Backend) : Inv (exRepo b) := by
  cases b <;> exact ⟨by decide, ⟨3, by unfold Consec; decide⟩, by decide, by decide, by decide⟩

def exOps : List Op :=
  [.insert (7, 70), .insert (9, 90), .get 4, .get 6, .get 2, .write true false, .write false true, .get 4,
   .get 5, .insert (8, 80), .reload, .get 8, .get 7, .write false false, .insert (8, 81), .write false false,
   .get 5, .get 6]

example :
    (run exOps { backend := .mem, ret := 3 }).2.map (·.res) =
      [.insert none, .insert (some .invalidEpoch), .get none, .get none, .get none,
       .write (some .storage), .write (some .storage), .get none, .get none, .insert none, .reload,
       .get none, .get (some (7, 70)), .write none, .insert none, .write none, .get none,
       .get none] := by decide

example : (run exOps (exRepo .mem)).2 = (run exOps (exRepo .sql)).2 := by decide

example :
    (run exOps (exRepo .sql)).2.map (·.storedIds) =
      [[3, 4], [3, 4], [3, 4], [3, 4], [3, 4], [3, 4], [5, 6, 7], [5, 6, 7], [5, 6, 7], [5, 6, 7], [5, 6, 7],
       [5, 6, 7], [5, 6, 7], [5, 6, 7], [5, 6, 7], [6, 7, 8], [6, 7, 8], [6, 7, 8]] := by decide

example :
    (run exOps (exRepo .sql)).2.map (·.res) =
      [.insert none, .insert (some .invalidEpoch), .get (some (4, 40)), .get (some (6, 60)), .get none,
       .write (some .storage), .write (some .storage), .get none, .get (some (5, 50)), .insert none, .reload,
       .get none, .get (some (7, 70)), .write none, .insert none, .write none, .get none,
       .get (some (6, 60))] := by decide

example : (run exOps (exRepo .sql)).2.map (·.storedMax) =
    [some 4, some 4, some 4, some 4, some 4, some 4, some 7, some 7, some 7, some 7, some 7, some 7, some 7,
     some 7, some 7, some 8, some 8, some 8] := by decide

-- `backends_bisimilar` on a concrete run from empty
example : (run exOps { backend := .mem, ret := 3 }).2 = (run exOps { backend := .sql, ret := 3 }).2 :=
  backends_bisimilar 3 (by decide) exOps

-- `mem_get_eq_keyed` / `reload_then_get` answer with a record
example : memGet (exRepo .mem).stored 4 = some (4, 40) ∧ (exRepo .mem).stored.find? (·.1 == 4) = some (4, 40) := by
  decide
example : ((exRepo .mem).reload.getEpoch 4).1 = some (4, 40) ∧ ((exRepo .mem).reload.getEpoch 5).1 = none ∧
    ((exRepo .mem).getEpoch 5).1 = some (5, 50) := by decide

-- `load_returns_last_write`: after the write, inserts / gets / a failed storage call are not in the load
example :
    (run ([.write false false] ++ [.insert (7, 70), .get 5, .write true false]) (exRepo .sql)).1.reload.stored
      = [(4, 40), (5, 50), (6, 60)] ∧
    (run [.write false false] (exRepo .sql)).1.stored = [(4, 40), (5, 50), (6, 60)] ∧
    (run ([.write false false] ++ [.insert (7, 70), .get 5, .write true false]) (exRepo .sql)).1.inserts
      = [(7, 70)] := by decide

end MlsVerif.Props.C06
