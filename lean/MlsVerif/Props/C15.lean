/-
C15 — a failing storage call never loses or corrupts the group; retry reaches the fault-free state.

Property theorems about `write_to_storage` of the prior-epoch repository model `MlsVerif.Repo`
(`MlsVerif/Model/Repo.lean`) with its two injected faults: `failWrite` (the storage write fails) and
`failKp` (the key-package deletion that follows a successful storage write fails).  The invariant `Inv` and
the helper lemmas are in `MlsVerif/Proofs/Repo.lean`.  All statements hold for all repositories satisfying
the invariant, both back ends, and all fault patterns (no bounds).
-/
import MlsVerif.Proofs.Repo
import MlsVerif.Proofs.Pipeline
import MlsVerif.Gen.Pipelines

namespace MlsVerif.Props.C15
open MlsVerif.Repo

section WriteFaults

/-! ### outcomes of `write` -/

/-- a failed storage write changes nothing -/
theorem write_failed_storage_unchanged (r : Repo) (fk : Bool) :
    r.write true fk = (.error .storage, r) := rfl

/-- Under the invariant, for both back ends and every fault pattern: the result is an error iff a fault was
injected (the storage itself never rejects the write), and the repository afterwards is the old one if the
storage write failed and otherwise the fault-free one — pending lists cleared, the newest `ret` records of
`stored ++ inserts` stored with the cached updates applied — also when the key-package deletion failed. -/
theorem write_outcome {r : Repo} (h : Inv r) (fw fk : Bool) :
    (r.write fw fk).1 = (if fw || fk then .error .storage else .ok ()) ∧
    (r.write fw fk).2 = (if fw then r else (r.write false false).2) := by
  rw [write_of_inv h, write_ok h]
  cases fw <;> cases fk <;> exact ⟨rfl, rfl⟩

/-- the fault-free write succeeds, clears the pending lists and stores ids without duplicates -/
theorem write_fault_free {r : Repo} (h : Inv r) :
    (r.write false false).1 = .ok () ∧
    (r.write false false).2.stored = memWrite r.stored r.ret r.inserts r.updates ∧
    (r.write false false).2.inserts = [] ∧ (r.write false false).2.updates = [] ∧
    (ids (r.write false false).2.stored).Nodup := by
  obtain ⟨a, ha⟩ := (Repo.inv_write h false false).stored_consec
  refine ⟨?_, ?_, ?_, ?_, ha.nodup⟩ <;> rw [write_ok h] <;> rfl

/-! ### retry -/

/-- Fail (either fault), then retry without faults: the outcome — result and whole repository — is that of
the fault-free write.  In particular failing the key-package deletion after a successful storage write and
retrying stores every epoch exactly once. -/
theorem write_retry_reaches_fault_free {r : Repo} (h : Inv r) (fw fk : Bool)
    (herr : (r.write fw fk).1 ≠ .ok ()) :
    (r.write fw fk).2.write false false = r.write false false := by
  have hw := write_of_inv h fw fk
  cases fw with
  | true => rw [hw]; rfl
  | false =>
    cases fk with
    | true =>
      have : (r.write false true).2 = r.written := by rw [hw]; rfl
      rw [this, write_ok (inv_written h), write_ok h, written_idem h]
    | false => rw [write_ok h] at herr; exact absurd rfl herr

theorem write_retry_same_history {r : Repo} (h : Inv r) (fw fk : Bool)
    (herr : (r.write fw fk).1 ≠ .ok ()) :
    ((r.write fw fk).2.write false false).1 = .ok () ∧
    ((r.write fw fk).2.write false false).2.stored = (r.write false false).2.stored ∧
    ((r.write fw fk).2.write false false).2.inserts = [] ∧
    (ids ((r.write fw fk).2.write false false).2.stored).Nodup := by
  rw [write_retry_reaches_fault_free h fw fk herr]
  obtain ⟨h1, _, h3, _, h5⟩ := write_fault_free h
  exact ⟨h1, rfl, h3, h5⟩

/-- two faults in a row (any flags), then success -/
theorem write_retry_twice_same_history {r : Repo} (h : Inv r) (fw fk fw' fk' : Bool)
    (herr : (r.write fw fk).1 ≠ .ok ()) (herr' : ((r.write fw fk).2.write fw' fk').1 ≠ .ok ()) :
    ((r.write fw fk).2.write fw' fk').2.write false false = r.write false false ∧
    (((r.write fw fk).2.write fw' fk').2.write false false).2.inserts = [] ∧
    (ids (((r.write fw fk).2.write fw' fk').2.write false false).2.stored).Nodup := by
  have e : ((r.write fw fk).2.write fw' fk').2.write false false = r.write false false := by
    rw [write_retry_reaches_fault_free (Repo.inv_write h fw fk) fw' fk' herr',
      write_retry_reaches_fault_free h fw fk herr]
  rw [e]
  obtain ⟨_, _, h3, _, h5⟩ := write_fault_free h
  exact ⟨rfl, h3, h5⟩

/-- attempt the writes with the given fault flags one after the other: the repository afterwards and the
results -/
def writeAll (r : Repo) : List (Bool × Bool) → Repo × List (Except Err Unit)
  | [] => (r, [])
  | f :: fs => ((writeAll (r.write f.1 f.2).2 fs).1, (r.write f.1 f.2).1 :: (writeAll (r.write f.1 f.2).2 fs).2)

/-- any number of failed attempts, then success: the fault-free outcome -/
theorem write_retry_many {r : Repo} (h : Inv r) (fs : List (Bool × Bool))
    (herr : ∀ res ∈ (writeAll r fs).2, res ≠ .ok ()) :
    (writeAll r fs).1.write false false = r.write false false := by
  induction fs generalizing r with
  | nil => rfl
  | cons f fs ih =>
    have h1 : (r.write f.1 f.2).1 ≠ .ok () := herr _ List.mem_cons_self
    have h2 := ih (Repo.inv_write h f.1 f.2) (fun res hres => herr res (List.mem_cons_of_mem _ hres))
    show (writeAll (r.write f.1 f.2).2 fs).1.write false false = _
    rw [h2, write_retry_reaches_fault_free h f.1 f.2 h1]

/-! ### every pending epoch is accounted for -/

/-- After any outcome of `write`, a pending id is still pending iff the storage write was not reached, and
if it was reached the id is stored iff it is within the retention window of the newest id `W`; never both
pending and stored.  (`write_fault_free`: the stored ids have no duplicates.) -/
theorem write_accounts_every_epoch {r : Repo} (h : Inv r) (fw fk : Bool) {W : Nat}
    (hW : r.findMaxId = some W) {id : Nat} (hid : id ∈ ids r.inserts) :
    (id ∈ ids (r.write fw fk).2.inserts ↔ fw = true) ∧
    (fw = false → (id ∈ ids (r.write fw fk).2.stored ↔ W + 1 ≤ id + r.ret)) ∧
    ¬ (id ∈ ids (r.write fw fk).2.inserts ∧ id ∈ ids (r.write fw fk).2.stored) := by
  obtain ⟨a, ha, hb⟩ := h.both
  have hid' := hb.mem_ids.1 hid
  cases hL : r.oldestId with
  | none =>
    have : r.stored ++ r.inserts = [] := by
      unfold Repo.oldestId at hL
      cases hh : (r.stored ++ r.inserts).head? with
      | none => exact List.head?_eq_none_iff.1 hh
      | some x => rw [hh] at hL; cases hL
    rw [(List.append_eq_nil_iff.1 this).2] at hid
    cases hid
  | some L =>
    obtain ⟨hc, hlen⟩ := known_ids h hW hL
    have hLa : L = a := by
      have hne : r.stored ++ r.inserts ≠ [] := by
        intro he; rw [(List.append_eq_nil_iff.1 he).2] at hid; cases hid
      exact (hc.start_unique (consec_append.2 ⟨ha, hb⟩) hne)
    subst hLa
    have hmem := mem_ids_written h hW hL id
    simp only [List.length_append] at hlen
    rw [write_of_inv h]
    cases fw with
    | true =>
      refine ⟨⟨fun _ => rfl, fun _ => hid⟩, (fun hf => by cases hf), ?_⟩
      rintro ⟨_, hs⟩
      have hs' : id ∈ ids r.stored := hs
      have := ha.mem_ids.1 hs'
      omega
    | false =>
      have e : (if false = true then ((Except.error Err.storage : Except Err Unit), r)
          else if fk = true then (Except.error Err.storage, r.written) else (Except.ok (), r.written)).2
          = r.written := by cases fk <;> rfl
      rw [e]
      refine ⟨⟨(fun hx => by cases hx), (fun hf => by cases hf)⟩, fun _ => ?_, (fun hx => by cases hx.1)⟩
      rw [hmem]
      omega

/-- with the storage write failed, nothing moved: same pending list, same storage -/
theorem write_failed_keeps_pending (r : Repo) (fk : Bool) :
    (r.write true fk).2.inserts = r.inserts ∧ (r.write true fk).2.stored = r.stored ∧
    (r.write true fk).2.updates = r.updates := ⟨rfl, rfl, rfl⟩

/-! ### the repaired defect: not clearing the pending lists when the key-package deletion fails -/

/-- `write_to_storage` before the repair: like `Repo.write`, but when the key-package deletion fails the
pending lists are NOT cleared although the storage write went through. -/
def writeOld (r : Repo) (failWrite failKp : Bool) : Except Err Unit × Repo :=
  if failWrite then (.error .storage, r)
  else
    let stored' : Option (List Rec) := match r.backend with
      | .mem => some (memWrite r.stored r.ret r.inserts r.updates)
      | .sql => sqlWrite r.stored r.ret r.inserts r.updates
    match stored' with
    | none => (.error .storage, r)
    | some s =>
      if failKp then (.error .storage, { r with stored := s })
      else (.ok (), { r with stored := s, inserts := [], updates := [] })

/-- the old and the repaired code differ only in this case -/
theorem writeOld_eq_write_unless_failKp (r : Repo) (fw : Bool) :
    writeOld r fw false = r.write fw false ∧ writeOld r true fw = r.write true fw := ⟨rfl, rfl⟩

/-- a repository with one stored epoch and one pending epoch -/
def exOld (b : Backend) : Repo := { backend := b, ret := 3, stored := [(1, 10)], inserts := [(2, 20)] }

theorem exOld_inv (b : Backend) : Inv (exOld b) := by
  cases b <;> exact ⟨by decide, ⟨1, by unfold Consec; decide⟩, by decide, by decide, by decide⟩

/-- Before the repair, in-memory store: the key-package deletion fails after the storage write, the caller
retries, and epoch 2 is stored twice; the deque's index arithmetic is then off by one for every later
epoch (`mem_get_wrong_without_contiguity` in C06) — here epoch 3 is answered with epoch 2's record. -/
theorem old_write_duplicates_mem :
    (writeOld (exOld .mem) false true).1 = .error .storage ∧
    (writeOld (writeOld (exOld .mem) false true).2 false false).1 = .ok () ∧
    (writeOld (writeOld (exOld .mem) false true).2 false false).2.stored = [(1, 10), (2, 20), (2, 20)] ∧
    ¬ (ids (writeOld (writeOld (exOld .mem) false true).2 false false).2.stored).Nodup ∧
    memGet ((writeOld (writeOld (exOld .mem) false true).2 false false).2.stored ++ [(3, 30)]) 3 = some (2, 20) := by
  decide

/-- Before the repair, SQLite: the retry hits the primary key and fails — and so does every further retry,
the repository is unchanged by them. -/
theorem old_write_duplicates_sql :
    (writeOld (exOld .sql) false true).1 = .error .storage ∧
    sqlWrite (writeOld (exOld .sql) false true).2.stored 3 (writeOld (exOld .sql) false true).2.inserts
      (writeOld (exOld .sql) false true).2.updates = none ∧
    (writeOld (writeOld (exOld .sql) false true).2 false false).1 = .error .storage ∧
    (writeOld (writeOld (exOld .sql) false true).2 false false).2.stored = [(1, 10), (2, 20)] ∧
    (writeOld (writeOld (exOld .sql) false true).2 false false).2.inserts = [(2, 20)] := by
  decide

/-- the two statements together, under the name used in the property list -/
theorem old_write_duplicates :
    ¬ (ids (writeOld (writeOld (exOld .mem) false true).2 false false).2.stored).Nodup ∧
    sqlWrite (writeOld (exOld .sql) false true).2.stored (exOld .sql).ret
      (writeOld (exOld .sql) false true).2.inserts (writeOld (exOld .sql) false true).2.updates = none :=
  ⟨old_write_duplicates_mem.2.2.2.1, old_write_duplicates_sql.2.1⟩

/-- the repaired code on the same repositories: the retry stores epoch 2 once, for both back ends -/
example :
    ((exOld .mem).write false true).1 = .error .storage ∧
    (((exOld .mem).write false true).2.write false false).1 = .ok () ∧
    (((exOld .mem).write false true).2.write false false).2.stored = [(1, 10), (2, 20)] ∧
    (((exOld .sql).write false true).2.write false false).1 = .ok () ∧
    (((exOld .sql).write false true).2.write false false).2.stored = [(1, 10), (2, 20)] := by decide

/-! ### non-vacuity -/

/-- stored epochs 3, 4, 5 (the limit), epoch 4 touched, epochs 6, 7 pending -/
def exRepo (b : Backend) : Repo :=
  { backend := b, ret := 3, stored := [(3, 30), (4, 40), (5, 50)], inserts := [(6, 60), (7, 70)],
    updates := [(4, 40)] }

theorem exRepo_inv (b : Backend) : Inv (exRepo b) := by
  cases b <;> exact ⟨by decide, ⟨3, by unfold Consec; decide⟩, by decide, by decide, by decide⟩

-- the hypotheses of the retry theorems are met, and the conclusions are about a non-trivial history
example : ((exRepo .sql).write false true).1 ≠ .ok () ∧ ((exRepo .sql).write true false).1 ≠ .ok () := by
  decide
example :
    ((exRepo .sql).write false false).2.stored = [(5, 50), (6, 60), (7, 70)] ∧
    (((exRepo .sql).write false true).2.write false false).2.stored = [(5, 50), (6, 60), (7, 70)] ∧
    (((exRepo .mem).write true true).2.write false false).2.stored = [(5, 50), (6, 60), (7, 70)] ∧
    ((((exRepo .mem).write true false).2.write false true).2.write false false).2.stored
      = [(5, 50), (6, 60), (7, 70)] := by decide
example : (writeAll (exRepo .mem) [(true, false), (false, true), (true, true)]).2
      = [.error .storage, .error .storage, .error .storage] ∧
    ((writeAll (exRepo .mem) [(true, false), (false, true), (true, true)]).1.write false false).2.stored
      = [(5, 50), (6, 60), (7, 70)] := by decide

-- `write_accounts_every_epoch`: W = 7, both pending ids are within the window; with `ret = 1` only 7 is
example : (exRepo .mem).findMaxId = some 7 ∧ ids (exRepo .mem).inserts = [6, 7] := by decide
example : ids ({ exRepo .sql with ret := 1, stored := [(5, 50)], updates := [] }.write false true).2.stored = [7] := by
  decide

end WriteFaults

/-! ## The generated step list of `write_to_storage` (regenerated from the Rust source on every run) -/
section GeneratedWrite
open MlsVerif.Pipeline MlsVerif.Gen.Pipelines

/-- Everything that can fail up to and including the storage write precedes every mutation of the member:
a fault there leaves the member and the storage untouched (`C04.atomic` applied to that prefix). -/
theorem write_prefix_atomic : wellOrdered (write_to_storage.takeWhile (fun s => !s.mutates)) = true := by decide

/-- The pending epoch lists are cleared *before* the last fallible step (the key-package deletion): the
list ends `… mutate, mutate, fallible`.  With the order the code had before the repair
(`… fallible, mutate, mutate`) a failing deletion left the inserts queued (`old_write_duplicates`). -/
theorem write_clears_before_kp_deletion :
    (match write_to_storage.reverse with
      | Step.fallible _ :: Step.mutate _ :: Step.mutate _ :: _ => true
      | _ => false) = true := by decide

/-- the operations around the repository that must be atomic are (re-export of the C04 instances) -/
theorem apply_pending_commit_atomic : wellOrdered apply_pending_commit = true := by decide
theorem apply_detached_commit_atomic : wellOrdered apply_detached_commit = true := by decide
theorem update_key_schedule_atomic : wellOrdered update_key_schedule = true := by decide
theorem state_repo_insert_atomic : wellOrdered state_repo_insert = true := by decide

end GeneratedWrite

end MlsVerif.Props.C15
