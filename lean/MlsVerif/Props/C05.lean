import MlsVerif.Proofs.SecretTree
/-
C05: message keys are single-use, replays are rejected, reordering inside the 1024-generation
window is tolerated, senders never repeat a generation, and — under explicit symbolic assumptions
on the primitives — no two (leaf, key type, generation) triples of an epoch share a key or a nonce.
Model: `Model/SecretTree.lean` (`SecretKeyRatchet`, `SecretTree` of mls-rs); RFC values:
`Spec/KeySchedule.lean`.  Only statements live here; lemmas are in `Proofs/SecretTree.lean`.

Vocabulary (`Proofs/SecretTree.lean`): `hasKey r.history g` — generation `g` is in the history map;
`HInv r` — every history entry `(g, k)` has `g < r.generation` and `k.generation = g`;
`RInv P s0 r` — additionally `r.secret` and all history keys are the RFC values of the ratchet
starting at `s0` (`RInv → HInv`; both hold for `SecretKeyRatchet::new` and are kept by every
request); `Ratchet.run P r reqs` — run a list of `get g` / `next` requests, returning each request
with its result; `okGens` — the generations of the successfully returned keys, in request order.
-/
namespace MlsVerif.Props.C05
open MlsVerif.KS MlsVerif.ST MlsVerif.KSSpec MlsVerif.TreeMath

variable {B : Type}

/-! ### Single use -/

/-- A generation handed out once is not handed out again by the next request for it.
(The hypothesis "`r.generation + 1024 < 2^32`" is not needed: a successful `get` implies it or
does not touch the window.  Distinctness of the history keys is not needed either: removal takes out
every entry for `g`.  That history keys are below the current generation IS needed: see
`get_removes_needs_invariant`.) -/
theorem get_removes (P : Prim B) (r r' : Ratchet B) (g : Nat) (k : MsgKey B)
    (hinv : ∀ e ∈ r.history, e.1 < r.generation) (h : r.get P g = (.ok k, r')) :
    (r'.get P g).1 = .error (.keyMissing g) :=
  get_then_missing P r r' g k hinv h

/-- without the invariant a generation can be served twice: a (never produced by the code) ratchet
at generation 3 whose history already has an entry for generation 5 -/
theorem get_removes_needs_invariant :
    let r : Ratchet (List Nat) :=
      { secret := [1], generation := 3, history := [(5, ⟨[], [], 5⟩)] }
    okGen (r.get toyPrim 5).1 = some 5 ∧ okGen ((r.get toyPrim 5).2.get toyPrim 5).1 = some 5 := by
  decide

/-- the invariant is established by `new` and kept by every request -/
theorem invariant_reachable (P : Prim B) (s : B) (kt : KeyType) (reqs : List RReq) :
    HInv (Ratchet.run P (Ratchet.new P s kt) reqs).2 :=
  (run_RInv P _ reqs _ (RInv_new P s kt)).1.hinv

/-- General form: over ANY request list (any mix of `get g` and `next`, any order, any
repetitions) run from any invariant-satisfying ratchet, no generation is handed out twice. -/
theorem handed_out_once (P : Prim B) (r : Ratchet B) (hinv : HInv r) (reqs : List RReq) :
    (okGens (Ratchet.run P r reqs).1).Nodup :=
  (run_nodup P reqs r hinv).2

/-- the same for a ratchet as the code creates it -/
theorem handed_out_once_new (P : Prim B) (s : B) (kt : KeyType) (reqs : List RReq) :
    (okGens (Ratchet.run P (Ratchet.new P s kt) reqs).1).Nodup :=
  handed_out_once P _ (RInv_new P s kt).hinv reqs

/-- … and the key material handed out for generation `g` is the RFC's, so (with `key_injective`)
no AEAD key/nonce is handed out twice either; see `C13.ratchet_key_eq_spec`. -/
theorem handed_out_keys (P : Prim B) (s : B) (kt : KeyType) (reqs : List RReq)
    (q : RReq) (key : MsgKey B)
    (h : (q, Except.ok key) ∈ (Ratchet.run P (Ratchet.new P s kt) reqs).1) :
    key = specRatchetKey P (ratchetSecret0 P s kt) key.generation :=
  ((run_RInv P _ reqs _ (RInv_new P s kt)).2 q key h).1

/-! ### The window, exactly -/

/-- `get g` succeeds iff `g` is at most 1024 ahead of the ratchet, or behind it and remembered. -/
theorem window_exact (P : Prim B) (r : Ratchet B) (g : Nat) (ho : r.generation + 1024 < 2 ^ 32) :
    (∃ k, (r.get P g).1 = .ok k) ↔
      (r.generation ≤ g ∧ g ≤ r.generation + 1024) ∨ (g < r.generation ∧ hasKey r.history g) :=
  get_ok_iff P r g ho

/-- the error in each of the other cases; a failed request changes nothing -/
theorem window_errors (P : Prim B) (r : Ratchet B) (g : Nat) (ho : r.generation + 1024 < 2 ^ 32) :
    (g < r.generation → ¬ hasKey r.history g → r.get P g = (.error (.keyMissing g), r)) ∧
    (r.generation + 1024 < g → r.get P g = (.error (.invalidFutureGeneration g), r)) := by
  constructor
  · intro hg hk
    exact get_past_none P r g hg ((mapRemove_none_iff _ _).2 hk)
  · intro hg
    exact get_future P r g (by omega) (by simp only [maxRatchetBackHistory]; omega)
      (by simp only [maxRatchetBackHistory]; omega)

/-! ### Reordering within the window -/

/-- Let `S` be a duplicate-free set of generations, all within `[r.generation, r.generation+1024]`.
Requested in ANY order `gs` (any permutation of `S`), every request succeeds and returns the RFC
key of its generation — hence each key exactly once.

The bound `r.generation + 2048 < 2^32` (instead of `+ 1024`) is needed: the window test of a later
request is made at the then-current generation, which may be up to 1024 further; see
`permutation_near_overflow`. -/
theorem permutation_complete (P : Prim B) (s0 : B) (r : Ratchet B) (hr : RInv P s0 r)
    (hG : r.generation + 2048 < 2 ^ 32) (S : List Nat) (hS : S.Nodup)
    (hwin : ∀ g ∈ S, r.generation ≤ g ∧ g ≤ r.generation + 1024)
    (gs : List Nat) (hperm : gs.Perm S) :
    (Ratchet.run P r (getAll gs)).1 =
      gs.map (fun g => (RReq.get g, Except.ok (specRatchetKey P s0 g))) ∧
    okGens (Ratchet.run P r (getAll gs)).1 = gs := by
  have h1 : (Ratchet.run P r (getAll gs)).1 =
      gs.map (fun g => (RReq.get g, Except.ok (specRatchetKey P s0 g))) :=
    run_getAll P s0 r.generation hG gs r hr (Nat.le_refl _) (by omega) (hperm.nodup_iff.2 hS)
      (fun g hg => ⟨(hwin g (hperm.mem_iff.1 hg)).2, Or.inl (hwin g (hperm.mem_iff.1 hg)).1⟩)
  refine ⟨h1, ?_⟩
  rw [h1]
  clear h1 hperm
  induction gs with
  | nil => rfl
  | cons g gs ih => simp only [List.map_cons, okGens_cons_ok, ih]; rfl

/-- More generally the generations need not be ahead of the ratchet: it suffices that each is
available (ahead, or behind and remembered) and at most 1024 ahead of the *initial* generation. -/
theorem permutation_complete_avail (P : Prim B) (s0 : B) (r : Ratchet B) (hr : RInv P s0 r)
    (hG : r.generation + 2048 < 2 ^ 32) (gs : List Nat) (hnd : gs.Nodup)
    (hwin : ∀ g ∈ gs, g ≤ r.generation + 1024 ∧ (r.generation ≤ g ∨ hasKey r.history g)) :
    (Ratchet.run P r (getAll gs)).1 =
      gs.map (fun g => (RReq.get g, Except.ok (specRatchetKey P s0 g))) :=
  run_getAll P s0 r.generation hG gs r hr (Nat.le_refl _) (by omega) hnd hwin

/-- within 2048 of `2^32` the guarantee breaks: the second request, inside the window of the
first, hits the `u32` overflow of `self.generation + MAX_RATCHET_BACK_HISTORY` (debug: panic,
release: wrap-around and a spurious `InvalidFutureGeneration`; the model reports `overflow`) -/
theorem permutation_near_overflow :
    let r : Ratchet (List Nat) := { secret := [1], generation := 2 ^ 32 - 1030, history := [] }
    r.generation + 1024 < 2 ^ 32 ∧
    (results (Ratchet.run toyPrim r (getAll [2 ^ 32 - 1020, 2 ^ 32 - 10])).1).map okGen =
      [some (2 ^ 32 - 1020), none] ∧
    (results (Ratchet.run toyPrim r (getAll [2 ^ 32 - 1020, 2 ^ 32 - 10])).1)[1]? =
      some (.error .overflow) := by
  decide +kernel

/-! ### Senders never repeat a generation -/

/-- `next_message_key` returns the current generation and moves on by exactly one -/
theorem sender_fresh (P : Prim B) (r : Ratchet B) :
    (r.next P).1.generation = r.generation ∧
    ((r.next P).2.next P).1.generation = (r.next P).1.generation + 1 :=
  ⟨rfl, rfl⟩

/-- `n` successive calls return the generations `g, g+1, …, g+n-1` -/
theorem sender_fresh_run (P : Prim B) (r : Ratchet B) (n : Nat) :
    okGens (Ratchet.run P r (List.replicate n .next)).1 = List.range' r.generation n :=
  run_next_gens P n r

/-- Secret tree: on a tree reached from a fresh one by requests at leaves, two successive
`next_message_key(leaf, kt)` calls — with ANY requests for other leaves or for the other key type
of the same leaf in between — return generations `g` and `g + 1`; both succeed. -/
theorem sender_fresh_tree (P : Prim B) (k : Nat) (enc : B) (before between : List Req)
    (i : Nat) (kt : KeyType) (hi : i % 2 = 0 ∧ i ≤ 2 * (2 ^ k - 1))
    (hbefore : ∀ q ∈ before, q.idx % 2 = 0 ∧ q.idx ≤ 2 * (2 ^ k - 1))
    (hbetween : ∀ q ∈ between,
      (q.idx % 2 = 0 ∧ q.idx ≤ 2 * (2 ^ k - 1)) ∧ (q.idx ≠ i ∨ q.kt ≠ kt)) :
    let t0 := (SecretTree.run P (SecretTree.new (2 ^ k) enc) before).2
    let t1 := (t0.step P (.next i kt)).2
    let t2 := (SecretTree.run P t1 between).2
    ∃ key key', (t0.step P (.next i kt)).1 = .ok key ∧ (t2.step P (.next i kt)).1 = .ok key' ∧
      key'.generation = key.generation + 1 := by
  intro t0 t1 t2
  have hleaf : ∀ j, (j % 2 = 0 ∧ j ≤ 2 * (2 ^ k - 1)) → IsLeafOf k j := by
    intro j hj
    have := Nat.two_pow_pos k
    have := pow_succ' k
    unfold IsLeafOf; omega
  have h0 : FInv k t0 :=
    (run_FInv P k before _ (FInv_new k enc) (fun q hq => hleaf _ (hbefore q hq))).1
  obtain ⟨key, ρ, hkey, hρ, hgen, _⟩ := step_next_at P k t0 i kt h0 (hleaf i hi)
  have hs := step_FInv P k t0 (.next i kt) h0 (hleaf i hi)
  have hstored : hasKey t1.known i :=
    hs.2.2.2.1.resolve_right (by rintro ⟨_, _, _, hq, _⟩; cases hq)
  have hfr := run_frame P k i kt hi.1 between t1 hs.1 hstored
    (fun q hq => ⟨hleaf _ (hbetween q hq).1, (hbetween q hq).2⟩)
  obtain ⟨key', ρ', hkey', _, _, hprev⟩ := step_next_at P k t2 i kt hfr.1 (hleaf i hi)
  refine ⟨key, key', hkey, hkey', ?_⟩
  rw [hprev ρ (by rw [hfr.2.2]; exact hρ), hgen]

/-! ### The two ratchets of a sender are independent (senders and receivers)

`sender_fresh_tree` is the sender's half for `next`.  The statement below covers every request: once
the leaf of a sender is stored in a member's tree (the member has sent or received anything of that
sender, or the leaf secret was derived on the way to a neighbour), the answer to a request for
(leaf, key type) — the key, or the error — is not changed by ANY requests for other leaves or for
the OTHER key type of the same leaf made in between.  In particular a receiver that has served
application generations up to 50 of a sender answers that sender's handshake generation 0 as it
would have before (`Ratchet.answer`, `Proofs/SecretTree.lean` §6b: what the ratchet of that (leaf,
key type) says; `step_answer`: on a shape-invariant tree that is the tree's answer). -/

theorem ratchets_independent (P : Prim B) (k : Nat) (enc : B) (before between : List Req)
    (q : Req) (hq : q.idx % 2 = 0 ∧ q.idx ≤ 2 * (2 ^ k - 1))
    (hbefore : ∀ x ∈ before, x.idx % 2 = 0 ∧ x.idx ≤ 2 * (2 ^ k - 1))
    (hbetween : ∀ x ∈ between,
      (x.idx % 2 = 0 ∧ x.idx ≤ 2 * (2 ^ k - 1)) ∧ (x.idx ≠ q.idx ∨ x.kt ≠ q.kt)) :
    let t0 := (SecretTree.run P (SecretTree.new (2 ^ k) enc) before).2
    hasKey t0.known q.idx →
      ((SecretTree.run P t0 between).2.step P q).1 = (t0.step P q).1 := by
  intro t0 hstored
  have hleaf : ∀ j, (j % 2 = 0 ∧ j ≤ 2 * (2 ^ k - 1)) → IsLeafOf k j := by
    intro j hj
    have := Nat.two_pow_pos k
    have := pow_succ' k
    unfold IsLeafOf; omega
  have h0 : FInv k t0 :=
    (run_FInv P k before _ (FInv_new k enc) (fun x hx => hleaf _ (hbefore x hx))).1
  have hfr := run_frame P k q.idx q.kt hq.1 between t0 h0 hstored
    (fun x hx => ⟨hleaf _ (hbetween x hx).1, (hbetween x hx).2⟩)
  obtain ⟨n, hn⟩ := (mapGet_isSome_iff _ _).2 hstored |> Option.isSome_iff_exists.1
  have hρ : ratchetAt P t0 q.idx q.kt = some (sel q.kt (toRatchets P n)) := by
    simp only [ratchetAt, hn, Option.map_some]
  rw [step_answer P k _ q hfr.1 (hleaf _ hq) _ (hfr.2.2.trans hρ),
    step_answer P k t0 q h0 (hleaf _ hq) _ hρ]

/-- the receiver's case spelled out: any application generations `gs` of the sender at leaf `i`,
served or refused, in any order, do not change what the member answers for that sender's handshake
generation `g` (and the other way round, by `ratchets_independent`) -/
theorem handshake_unaffected_by_application (P : Prim B) (k : Nat) (enc : B) (before : List Req)
    (i g : Nat) (gs : List Nat) (hi : i % 2 = 0 ∧ i ≤ 2 * (2 ^ k - 1))
    (hbefore : ∀ x ∈ before, x.idx % 2 = 0 ∧ x.idx ≤ 2 * (2 ^ k - 1)) :
    let t0 := (SecretTree.run P (SecretTree.new (2 ^ k) enc) before).2
    hasKey t0.known i →
      ((SecretTree.run P t0 (gs.map (.get i .application))).2.step P (.get i .handshake g)).1 =
        (t0.step P (.get i .handshake g)).1 := by
  intro t0 hstored
  refine ratchets_independent P k enc before (gs.map (.get i .application)) (.get i .handshake g)
    hi hbefore ?_ hstored
  intro x hx
  obtain ⟨a, _, rfl⟩ := List.mem_map.1 hx
  exact ⟨hi, Or.inr (by simp [Req.kt])⟩

-- a receiver (4 leaves) that served application generation 50 of the sender at leaf node 2 serves
-- that sender's handshake generation 0, then handshake 3, then application 7 from its history
example : (results (SecretTree.run toyPrim (SecretTree.new (2 ^ 2) [7])
      [.get 2 .application 50, .get 2 .handshake 0, .get 2 .handshake 3, .get 2 .application 7,
       .get 2 .handshake 0]).1).map okGen =
    [some 50, some 0, some 3, some 7, none] := by decide +kernel

/-! ### The repaired `message_key_generation`: a refused request no longer changes the tree

`SecretTree::message_key_generation` used to call `take_leaf_ratchet` first — which consumes the
tree down to the leaf, or turns the leaf's stored secret into its two ratchets — and only then
asked the ratchet, so a request far beyond the window was rejected *after* the tree had been
restructured.  The repaired function (model: `SecretTree.messageKeyGeneration`) first tests
`generation > 1024 ∧ ¬ (known_secrets[leaf] is a Ratchet)` and returns
`InvalidFutureGeneration` without touching anything.  `t.hasRatchet i` is that test's second half
(`Model/SecretTree.lean`): the entry of `i` is a `Ratchet` node; a `Secret` entry and no entry both
give `false`.  `SecretTree.messageKeyGenerationOld` (`Proofs/SecretTree.lean`) is the body before
the repair, which is still what runs when the request is not refused early. -/

/-- the repaired function, exactly: early refusal, else the old body -/
theorem message_key_generation_repaired (P : Prim B) (t : SecretTree B) (i : Nat) (kt : KeyType)
    (g : Nat) :
    t.messageKeyGeneration P i kt g =
      if 1024 < g ∧ t.hasRatchet i = false then (.error (.invalidFutureGeneration g), t)
      else t.messageKeyGenerationOld P i kt g :=
  messageKeyGeneration_eq P t i kt g

/-- `hasRatchet` spelled out on the stored map -/
theorem hasRatchet_false_iff (t : SecretTree B) (i : Nat) :
    t.hasRatchet i = false ↔ ∀ a h, mapGet t.known i ≠ some (.ratchet a h) :=
  hasRatchet_eq_false_iff t i

/-- (1) A request for a generation beyond 1024 at an index that has no ratchets yet (nothing
stored there, or a not yet started leaf secret) is answered `InvalidFutureGeneration` and the tree
returned is `t` ITSELF — for every tree and every index, no invariant needed. -/
theorem refused_future_generation_changes_nothing (P : Prim B) (t : SecretTree B) (i : Nat)
    (kt : KeyType) (g : Nat) (hg : 1024 < g) (hn : t.hasRatchet i = false) :
    t.messageKeyGeneration P i kt g = (.error (.invalidFutureGeneration g), t) :=
  messageKeyGeneration_refused P t i kt g ⟨hg, hn⟩

/-- the two ways of having no ratchets, as hypotheses on the map -/
theorem refused_future_generation_untouched (P : Prim B) (t : SecretTree B) (i : Nat)
    (kt : KeyType) (g : Nat) (hg : 1024 < g)
    (hn : mapGet t.known i = none ∨ ∃ s, mapGet t.known i = some (.secret s)) :
    t.messageKeyGeneration P i kt g = (.error (.invalidFutureGeneration g), t) := by
  apply refused_future_generation_changes_nothing P t i kt g hg
  rw [hasRatchet_false_iff]
  intro a h hc
  rcases hn with hn | ⟨s, hn⟩ <;> rw [hn] at hc <;> cases hc

/-- (1, started leaf) If ratchets ARE stored at `i`, the old path is taken whatever `g` is.  When
the request then fails (with any error `e`), the result is exactly: the entry of `i` removed and
the IDENTICAL node `.ratchet a h` inserted again (`mapInsert` puts it at the head of the association
list; `HashMap::insert` of an equal value in the code).  So the returned tree differs from `t` at
most in the position of that entry in the list … -/
theorem failed_request_on_started_leaf (P : Prim B) (t : SecretTree B) (i : Nat) (kt : KeyType)
    (g : Nat) (a h : Ratchet B) (e : Err) (hn : mapGet t.known i = some (.ratchet a h))
    (he : (t.messageKeyGeneration P i kt g).1 = .error e) :
    t.messageKeyGeneration P i kt g = (.error e,
      { known := mapInsert (mapRemove t.known i).2 i (.ratchet a h), leafCount := t.leafCount }) ∧
    (e = .keyMissing g ∨ e = .overflow ∨ e = .invalidFutureGeneration g) := by
  have h1 := messageKeyGeneration_started_error P t i kt g a h e hn he
  refine ⟨h1, ?_⟩
  have hnr : ¬ Refused t i g := by
    intro hc
    have := (hasRatchet_eq_true_iff t i).2 ⟨a, h, hn⟩
    rw [hc.2] at this; cases this
  have hv : (mapRemove t.known i).1 = some (.ratchet a h) := hn
  rw [messageKeyGeneration_not_refused P t i kt g hnr, messageKeyGenerationOld_eq,
    takeLeafRatchet_eq, hv] at he
  exact get_err_kind P _ g e he

/-- … and, for EVERY tree, index, key type and generation: a request that the ratchet rejects
(any error other than the two tree errors `LeafNodeNoChildren` / `InvalidLeafConsumption` of
`take_leaf_ratchet`, i.e. `KeyMissing`, `InvalidFutureGeneration` or the overflow) leaves the tree
unchanged as a map: same leaf count and every lookup returns the same node.  (Before the repair
this failed for `InvalidFutureGeneration` on a not yet started leaf: see the examples below.) -/
theorem rejected_request_changes_no_lookup (P : Prim B) (t : SecretTree B) (i : Nat) (kt : KeyType)
    (g : Nat) (e : Err) (he : (t.messageKeyGeneration P i kt g).1 = .error e)
    (h1 : e ≠ .leafNodeNoChildren) (h2 : e ≠ .invalidLeafConsumption) :
    (t.messageKeyGeneration P i kt g).2.leafCount = t.leafCount ∧
    ∀ x, mapGet (t.messageKeyGeneration P i kt g).2.known x = mapGet t.known x :=
  messageKeyGeneration_error_lookup P t i kt g e he h1 h2

/-- (2) The repair changes the state only, never the answer — with one exception in the KIND of
error, which the theorem states exactly.  For every tree, index, key type and generation: the
result of the repaired function equals the result of the old body, OR the request is refused early
with `InvalidFutureGeneration` where the old body failed in `take_leaf_ratchet`
(`LeafNodeNoChildren` / `InvalidLeafConsumption`: the index is not reachable in the tree).
The unconditional "results are equal" is FALSE: see `repair_changes_error_kind_outside_tree`.
(Uses: freshly derived ratchets are at generation 0 and `0 + 1024 < 2^32`, so they answer
`InvalidFutureGeneration` to every `g > 1024`.) -/
theorem repair_verdict (P : Prim B) (t : SecretTree B) (i : Nat) (kt : KeyType) (g : Nat) :
    (t.messageKeyGeneration P i kt g).1 = (t.messageKeyGenerationOld P i kt g).1 ∨
    ((1024 < g ∧ t.hasRatchet i = false) ∧
      (t.messageKeyGeneration P i kt g).1 = .error (.invalidFutureGeneration g) ∧
      ((t.messageKeyGenerationOld P i kt g).1 = .error .leafNodeNoChildren ∨
       (t.messageKeyGenerationOld P i kt g).1 = .error .invalidLeafConsumption)) :=
  ST.repair_verdict P t i kt g

/-- (2) unconditionally: the same requests succeed, with the same key -/
theorem repair_same_success (P : Prim B) (t : SecretTree B) (i : Nat) (kt : KeyType) (g : Nat)
    (key : MsgKey B) :
    (t.messageKeyGeneration P i kt g).1 = .ok key ↔
      (t.messageKeyGenerationOld P i kt g).1 = .ok key := by
  rcases ST.repair_verdict P t i kt g with h | ⟨_, h1, h2 | h2⟩
  · rw [h]
  · rw [h1, h2]; constructor <;> intro hc <;> cases hc
  · rw [h1, h2]; constructor <;> intro hc <;> cases hc

/-- (2) whenever the old body did not fail with a tree error, the results are equal -/
theorem repair_same_verdict (P : Prim B) (t : SecretTree B) (i : Nat) (kt : KeyType) (g : Nat)
    (h1 : (t.messageKeyGenerationOld P i kt g).1 ≠ .error .leafNodeNoChildren)
    (h2 : (t.messageKeyGenerationOld P i kt g).1 ≠ .error .invalidLeafConsumption) :
    (t.messageKeyGeneration P i kt g).1 = (t.messageKeyGenerationOld P i kt g).1 := by
  rcases ST.repair_verdict P t i kt g with h | ⟨_, _, h | h⟩
  · exact h
  · exact absurd h h1
  · exact absurd h h2

/-- (2) in particular at every leaf of every tree the code can reach: on a tree obtained from
`SecretTree::new` by any requests at leaves (run with the REPAIRED function), for a leaf index,
the repaired function and the old body give the same result, whatever `kt` and `g`. -/
theorem repair_same_verdict_at_leaf (P : Prim B) (k : Nat) (enc : B) (ops : List Req)
    (hops : ∀ q ∈ ops, q.idx % 2 = 0 ∧ q.idx ≤ 2 * (2 ^ k - 1))
    (i : Nat) (kt : KeyType) (g : Nat) (hi : i % 2 = 0 ∧ i ≤ 2 * (2 ^ k - 1)) :
    let t := (SecretTree.run P (SecretTree.new (2 ^ k) enc) ops).2
    (t.messageKeyGeneration P i kt g).1 = (t.messageKeyGenerationOld P i kt g).1 := by
  intro t
  have hleaf : ∀ j, (j % 2 = 0 ∧ j ≤ 2 * (2 ^ k - 1)) → IsLeafOf k j := by
    intro j hj
    have := Nat.two_pow_pos k
    have := pow_succ' k
    unfold IsLeafOf; omega
  have h0 : FInv k t :=
    (run_FInv P k ops _ (FInv_new k enc) (fun q hq => hleaf _ (hops q hq))).1
  have := old_no_tree_error P k t i kt g h0 (hleaf i hi)
  exact repair_same_verdict P t i kt g this.1 this.2

/-! ### No two encryptions of an epoch share a key or a nonce

`FreePrim P` (`Proofs/SecretTree.lean` §7) states the symbolic, collision-free assumptions exactly
as far as they are used: `expandLabel` (`KDF.Expand` on a `KDFLabel`) injective jointly in its four
arguments; `ascii` injective; `u32be` injective on numbers below `2^32`.  Nothing is assumed about
`extract`, `hash`, `mac`, `cat`: they do not occur below the encryption secret. -/

/-- Under `FreePrim P`, for the tree with `2^k` leaves and encryption secret `enc`: if the RFC
keys of two (leaf, key type, generation) triples (generations `< 2^32`) agree in the AEAD key OR in
the nonce, the triples are equal.  In particular distinct triples have distinct (key, nonce) pairs,
and the application and handshake ratchets never share a key. -/
theorem key_injective (P : Prim B) (hP : FreePrim P) (k : Nat) (enc : B)
    (i i' : Nat) (kt kt' : KeyType) (g g' : Nat) (m m' : MsgKey B)
    (hg : g < 2 ^ 32) (hg' : g' < 2 ^ 32)
    (h : specMsgKey P k enc i kt g = some m) (h' : specMsgKey P k enc i' kt' g' = some m')
    (heq : m.key = m'.key ∨ m.nonce = m'.nonce) : i = i' ∧ kt = kt' ∧ g = g' :=
  specMsgKey_inj P hP k enc i i' kt kt' g g' m m' hg hg' h h' heq

/-- the (key, nonce)-pair form -/
theorem key_nonce_pair_injective (P : Prim B) (hP : FreePrim P) (k : Nat) (enc : B)
    (i i' : Nat) (kt kt' : KeyType) (g g' : Nat) (m m' : MsgKey B)
    (hg : g < 2 ^ 32) (hg' : g' < 2 ^ 32)
    (h : specMsgKey P k enc i kt g = some m) (h' : specMsgKey P k enc i' kt' g' = some m')
    (hne : (i, kt, g) ≠ (i', kt', g')) : (m.key, m.nonce) ≠ (m'.key, m'.nonce) := by
  intro heq
  have := key_injective P hP k enc i i' kt kt' g g' m m' hg hg' h h' (Or.inl (Prod.mk.inj heq).1)
  exact hne (by rw [this.1, this.2.1, this.2.2])

/-- application and handshake never share a key or nonce, at any leaves and generations -/
theorem app_handshake_disjoint (P : Prim B) (hP : FreePrim P) (k : Nat) (enc : B)
    (i i' g g' : Nat) (m m' : MsgKey B) (hg : g < 2 ^ 32) (hg' : g' < 2 ^ 32)
    (h : specMsgKey P k enc i .application g = some m)
    (h' : specMsgKey P k enc i' .handshake g' = some m') :
    m.key ≠ m'.key ∧ m.nonce ≠ m'.nonce := by
  constructor <;> intro heq
  · have := key_injective P hP k enc i i' _ _ g g' m m' hg hg' h h' (Or.inl heq)
    exact absurd this.2.1 (by decide)
  · have := key_injective P hP k enc i i' _ _ g g' m m' hg hg' h h' (Or.inr heq)
    exact absurd this.2.1 (by decide)

/-- Combined with C13: the keys the *code* hands out, over any request sequence on a fresh tree,
for two different (leaf, key type, generation) triples differ in key and in nonce. -/
theorem handed_out_keys_distinct (P : Prim B) (hP : FreePrim P) (k : Nat) (enc : B)
    (ops : List Req) (q q' : Req) (key key' : MsgKey B)
    (h : (q, Except.ok key) ∈ (SecretTree.run P (SecretTree.new (2 ^ k) enc) ops).1)
    (h' : (q', Except.ok key') ∈ (SecretTree.run P (SecretTree.new (2 ^ k) enc) ops).1)
    (hl : q.idx % 2 = 0) (hl' : q'.idx % 2 = 0)
    (hg : key.generation < 2 ^ 32) (hg' : key'.generation < 2 ^ 32)
    (hne : (q.idx, q.kt, key.generation) ≠ (q'.idx, q'.kt, key'.generation)) :
    key.key ≠ key'.key ∧ key.nonce ≠ key'.nonce := by
  have s := (run_KInv P k enc ops _ (KInv_new P k enc)).2 q key h
  have s' := (run_KInv P k enc ops _ (KInv_new P k enc)).2 q' key' h'
  have e : specMsgKey P k enc q.idx q.kt key.generation = some key := by
    unfold specMsgKey; rw [if_pos hl]; exact s.1
  have e' : specMsgKey P k enc q'.idx q'.kt key'.generation = some key' := by
    unfold specMsgKey; rw [if_pos hl']; exact s'.1
  constructor <;> intro heq
  · have := key_injective P hP k enc _ _ _ _ _ _ key key' hg hg' e e' (Or.inl heq)
    exact hne (by rw [this.1, this.2.1, this.2.2])
  · have := key_injective P hP k enc _ _ _ _ _ _ key key' hg hg' e e' (Or.inr heq)
    exact hne (by rw [this.1, this.2.1, this.2.2])

/-- The assumptions are satisfiable: in the free term algebra `Term` (every primitive a
constructor) they hold, for any sizes. -/
theorem termPrim_free (nh nk nn : Nat) : FreePrim (termPrim nh nk nn) where
  expand_inj := by
    intro s l c n s' l' c' n' h
    simp only [termPrim] at h
    cases h
    exact ⟨rfl, rfl, rfl, rfl⟩
  ascii_inj := by
    intro a b h
    simp only [termPrim] at h
    cases h; rfl
  u32be_inj := by
    intro a b _ _ h
    simp only [termPrim] at h
    cases h; rfl

/-- … and `key_injective` instantiated there -/
theorem term_keys_distinct (k : Nat) (enc : Term) (i i' : Nat) (kt kt' : KeyType) (g g' : Nat)
    (m m' : MsgKey Term) (hg : g < 2 ^ 32) (hg' : g' < 2 ^ 32)
    (h : specMsgKey (termPrim 32 16 12) k enc i kt g = some m)
    (h' : specMsgKey (termPrim 32 16 12) k enc i' kt' g' = some m')
    (hne : (i, kt, g) ≠ (i', kt', g')) : (m.key, m.nonce) ≠ (m'.key, m'.nonce) :=
  key_nonce_pair_injective _ (termPrim_free 32 16 12) k enc i i' kt kt' g g' m m' hg hg' h h' hne

/-! ### Non-vacuity -/

-- a ratchet as the code creates it: out of order, replay, beyond the window, `next`
example : (results (Ratchet.run toyPrim (Ratchet.new toyPrim [9] .application)
      [.get 2, .get 0, .get 2, .get 1028, .next, .get 1, .get 1]).1).map okGen =
    [some 2, some 0, none, none, some 3, some 1, none] := by decide

example : (results (Ratchet.run toyPrim (Ratchet.new toyPrim [9] .application)
      [.get 2, .get 0, .get 2, .get 1028]).1).drop 2 =
    [.error (.keyMissing 2), .error (.invalidFutureGeneration 1028)] := by decide

-- window edge: 1024 ahead is served, 1025 is not
example : okGen ((Ratchet.new toyPrim [9] .handshake).get toyPrim 1024).1 = some 1024 ∧
    okGen ((Ratchet.new toyPrim [9] .handshake).get toyPrim 1025).1 = none := by decide +kernel

-- `permutation_complete` instantiated: hypotheses satisfiable, conclusion evaluated
example : okGens (Ratchet.run toyPrim (Ratchet.new toyPrim [9] .application)
    (getAll [5, 0, 3, 1, 4, 2])).1 = [5, 0, 3, 1, 4, 2] :=
  (permutation_complete toyPrim _ _ (RInv_new toyPrim [9] .application) (by decide)
    [0, 1, 2, 3, 4, 5] (by decide) (by decide) [5, 0, 3, 1, 4, 2] (by decide)).2
example : okGens (Ratchet.run toyPrim (Ratchet.new toyPrim [9] .application)
    (getAll [5, 0, 3, 1, 4, 2])).1 = [5, 0, 3, 1, 4, 2] := by decide

-- sender on a tree with 4 leaves, interleaved with other leaves and the other key type
example : (results (SecretTree.run toyPrim (SecretTree.new (2 ^ 2) [7])
      [.next 2 .application, .next 6 .application, .next 2 .handshake, .get 0 .application 3,
       .next 2 .application, .next 2 .application]).1).map okGen =
    [some 0, some 0, some 0, some 3, some 1, some 2] := by decide +kernel

-- the repair, on the tree with 4 leaves (nodes 0…6, root 3): a request 2000 generations ahead at
-- the untouched leaf node 4 is refused and the tree is literally the one before …
example : (SecretTree.new (2 ^ 2) [7]).messageKeyGeneration toyPrim 4 .application 2000 =
    (.error (.invalidFutureGeneration 2000), SecretTree.new (2 ^ 2) [7]) := by decide +kernel
example : ((SecretTree.new (2 ^ 2) [7]).messageKeyGeneration toyPrim 4 .application 2000).2.known =
    [(3, .secret [7])] := by decide +kernel
-- … whereas the old body gave the same answer after opening the tree down to the leaf
example : ((SecretTree.new (2 ^ 2) [7]).messageKeyGenerationOld toyPrim 4 .application 2000).1 =
      .error (.invalidFutureGeneration 2000) ∧
    ((SecretTree.new (2 ^ 2) [7]).messageKeyGenerationOld toyPrim 4 .application 2000).2.known.map
      (·.1) = [4, 6, 1] := by decide +kernel
-- a stored, not yet started leaf secret (node 6 after leaf 4 was used) stays a secret
example : let t := (SecretTree.step toyPrim (SecretTree.new (2 ^ 2) [7]) (.next 4 .application)).2
    t.hasRatchet 6 = false ∧ mapGet t.known 6 ≠ none ∧
    t.messageKeyGeneration toyPrim 6 .handshake 1025 = (.error (.invalidFutureGeneration 1025), t) ∧
    (t.messageKeyGenerationOld toyPrim 6 .handshake 1025).2 ≠ t := by decide +kernel
-- a started leaf: the old path; the identical node is stored back (here it already is the head
-- of the list, so the tree is literally unchanged); 1025 is inside the window of generation 1
example : let t := (SecretTree.step toyPrim (SecretTree.new (2 ^ 2) [7]) (.next 4 .application)).2
    t.hasRatchet 4 = true ∧
    t.messageKeyGeneration toyPrim 4 .application 1026 = (.error (.invalidFutureGeneration 1026), t) ∧
    okGen (t.messageKeyGeneration toyPrim 4 .application 1025).1 = some 1025 := by decide +kernel
-- `refused_future_generation_changes_nothing` instantiated
example : (SecretTree.new (2 ^ 2) [7]).messageKeyGeneration toyPrim 4 .application 2000 =
    (.error (.invalidFutureGeneration 2000), SecretTree.new (2 ^ 2) [7]) :=
  refused_future_generation_changes_nothing toyPrim _ 4 .application 2000 (by decide)
    (by decide +kernel)

/-- the unconditional form of (2) is false: at an index outside the tree (node 8 of a tree with
nodes 0…6) the old body fails in `take_leaf_ratchet`, the repaired function refuses earlier with a
different error (both reject) -/
theorem repair_changes_error_kind_outside_tree :
    ((SecretTree.new (2 ^ 2) [7]).messageKeyGenerationOld toyPrim 8 .application 2000).1 =
      .error .invalidLeafConsumption ∧
    ((SecretTree.new (2 ^ 2) [7]).messageKeyGeneration toyPrim 8 .application 2000).1 =
      .error (.invalidFutureGeneration 2000) := by decide +kernel

/-- a side effect of the repair: a far-future request at a PARENT index (5, the parent of leaves 4
and 6; callers never pass one) used to turn the parent's secret into ratchets, losing the subtree
(cf. `C13.nonleaf_request_breaks_subtree`); now it is refused and the tree is intact -/
theorem repair_protects_parent_index :
    ((SecretTree.new (2 ^ 2) [7]).messageKeyGenerationOld toyPrim 5 .application 2000).2.known.map
      (·.1) = [5, 1] ∧
    ((SecretTree.new (2 ^ 2) [7]).messageKeyGeneration toyPrim 5 .application 2000).2 =
      SecretTree.new (2 ^ 2) [7] := by decide +kernel

-- free term algebra: the first application key of leaf node 0 in a tree with 2 leaves
example : (specMsgKey (termPrim 32 16 12) 1 (.ascii "enc") 0 .application 0).map (·.key) =
    some (.expand (.expand (.expand (.ascii "enc") (.ascii "tree") (.ascii "left") 32)
      (.ascii "application") .empty 32) (.ascii "key") (.u32 0) 16) := by decide
example : (specMsgKey (termPrim 32 16 12) 1 (.ascii "enc") 0 .application 0).map (·.key) ≠
    (specMsgKey (termPrim 32 16 12) 1 (.ascii "enc") 2 .application 0).map (·.key) := by decide
-- the code on the term algebra returns that very term
example : ((SecretTree.step (termPrim 32 16 12) (SecretTree.new (2 ^ 1) (.ascii "enc"))
      (.next 0 .application)).1) =
    (specMsgKey (termPrim 32 16 12) 1 (.ascii "enc") 0 .application 0).elim
      (.error .overflow) .ok := by decide +kernel

end MlsVerif.Props.C05
