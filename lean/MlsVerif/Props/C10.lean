/-
C10 — proposal validation for a commit from a member (`group/proposal_filter/filtering.rs`,
`filtering_common.rs`, `tree_kem/mod.rs` `batch_edit`, `proposal_filter.rs` `path_update_required`),
on the model `Model/Proposals.lean`: one rule set, two strategies (`send` = the committer, drops
offending by-reference proposals and fails on the others; `receive` = strict).

"Every commit that the library lets an honest member build is accepted by every other honest member of
that epoch that has seen the referenced proposals, and members with the same cached proposals report the
same applied proposals as the committer.  A proposal set that violates the RFC 9420 rules is never
committed by value, is silently dropped when it came in by reference, and is rejected when received
from someone else."

All statements hold for all bundles, trees and committers (no bounds).  The model is the one after repair
F16 (`batch_edit(filter = true)`: the "revert all updates" branch puts back every old leaf, including
the failing update's and the not-yet-reached ones); before that repair the first sentence was false in
exactly that branch — `revert_all_restores_leaves` is the former counterexample, now evaluated positively.
-/
import MlsVerif.Proofs.ProposalsRules
import MlsVerif.Proofs.ProposalsAdds

namespace MlsVerif.Props.C10
open MlsVerif.Proposals MlsVerif.Tree

/-! ### 1. what the committer builds, the receivers accept -/

/-- Every commit the committer builds is accepted: the strict mode, run by any receiver on the bundle
the committer kept (and on the same tree), succeeds with the very same result — bundle, tree, added
leaves (hence the same `pathRequired`).  No side condition. -/
theorem send_accepted {c : Nat} {b : Bundle} {t : Tree} {out : EditOut}
    (h : applyFromMember .send c b t = .ok out) :
    ∃ out', applyFromMember .receive c out.bundle t = .ok out' ∧
      out'.bundle = out.bundle ∧ out'.tree = out.tree ∧ out'.added = out.added :=
  ⟨out, send_accepted_core h, rfl, rfl, rfl⟩

/-- the same, as an equation -/
theorem send_accepted_eq {c : Nat} {b : Bundle} {t : Tree} {out : EditOut}
    (h : applyFromMember .send c b t = .ok out) :
    applyFromMember .receive c out.bundle t = .ok out :=
  send_accepted_core h

/-- (kept from the pre-repair development, where `NoRevert` was needed: now a corollary) -/
theorem send_accepted_partial {c : Nat} {b : Bundle} {t : Tree} {out : EditOut}
    (h : applyFromMember .send c b t = .ok out) (_hnr : NoRevert c b t) :
    ∃ out', applyFromMember .receive c out.bundle t = .ok out' ∧
      out'.bundle = out.bundle ∧ out'.tree = out.tree ∧ out'.added = out.added :=
  send_accepted h

theorem send_accepted_partial_eq {c : Nat} {b : Bundle} {t : Tree} {out : EditOut}
    (h : applyFromMember .send c b t = .ok out) (_hnr : NoRevert c b t) :
    applyFromMember .receive c out.bundle t = .ok out :=
  send_accepted_eq h

/-- the committer's mode is idempotent on its own output too: the kept bundle passes the strict mode's
passes before the tree unchanged -/
theorem send_accepted_before_tree {c : Nat} {b : Bundle} {t : Tree} {out : EditOut}
    (h : applyFromMember .send c b t = .ok out) :
    prepare .receive c out.bundle = .ok out.bundle :=
  (out_clean h).prepare

/-! #### the former counterexample: revert-all -/

/-- four members; member 1 proposes an update whose new leaf carries member 2's current HPKE key,
member 2 proposes an update whose new leaf carries member 3's HPKE key -/
def cexTree : Tree :=
  [some (.leaf ⟨10, 20, 30⟩), some (.parent ⟨100, []⟩), some (.leaf ⟨11, 21, 31⟩),
   some (.parent ⟨101, []⟩), some (.leaf ⟨12, 22, 32⟩), some (.parent ⟨102, []⟩),
   some (.leaf ⟨13, 23, 33⟩)]
def cexU1 : Proposal :=
  { id := 1, kind := .update, sender := .member 1, src := .byRef, leaf := ⟨11, 22, 41⟩ }
def cexU2 : Proposal :=
  { id := 2, kind := .update, sender := .member 2, src := .byRef, leaf := ⟨12, 23, 42⟩ }
def cexBundle : Bundle := { updates := [cexU1, cexU2] }

/-- `batch_edit(filter = true)`: both old leaves are taken out; update 1 goes in; update 2 collides with
member 3, and putting member 2's old leaf back collides with update 1's new leaf → "revert all".
Since repair F16 every old leaf is put back: the run does take the revert-all branch (`¬ NoRevert`), the
committer (member 0) commits an empty proposal list on the UNCHANGED tree — all four leaves present —
and a receiver applying that empty list gets the same result.  (Before F16 member 2's leaf stayed blank
and the receiver's tree differed.) -/
theorem revert_all_restores_leaves :
    ¬ NoRevert 0 cexBundle cexTree ∧
    applyFromMember .send 0 cexBundle cexTree = .ok { bundle := {}, added := [], tree := cexTree } ∧
    (leaves cexTree).length = 4 ∧ Tree.get cexTree 4 = some (.leaf ⟨12, 22, 32⟩) ∧
    applyFromMember .receive 0 {} cexTree = .ok { bundle := {}, added := [], tree := cexTree } := by
  decide +kernel

/-- the general fact behind it: when `batch_edit(filter = true)` takes the revert-all branch, the updates
leave the tree exactly as it was (and report no applied update) -/
theorem revert_all_identity {us applied : List Proposal} {t t2 : Tree}
    (h : applyUpdatesF true us t = .ok (applied, t2)) (hrev : updatesRevert us t = true) :
    applied = [] ∧ t2 = t := by
  unfold applyUpdatesF at h
  unfold updatesRevert at hrev
  split at h
  · cases h
  · rename_i pairs ta htake
    rw [htake] at hrev
    simp only at hrev
    obtain ⟨hlen, hta, _, holds, _⟩ := takeOldLeaves_spec htake
    split at h
    · cases h
    · rename_i ap tb hins
      rw [hins] at hrev; cases hrev
    · rename_i tb hins
      cases h
      exact ⟨rfl, ins_revert_tree t hins (fun po hpo => (holds po hpo).1) (fun po hpo => by cases hpo)
        hlen (fun j h1 _ => by rw [hta j, if_neg h1])⟩

/-! ### 2. determinism, and nothing is invented -/

/-- the result is a function of (strategy, committer, resolved bundle, tree): two members that resolved
the same proposals on the same tree compute the same thing -/
theorem unused_agree (st : Strategy) (c : Nat) (b₁ b₂ : Bundle) (t₁ t₂ : Tree) (hb : b₁ = b₂)
    (ht : t₁ = t₂) : applyFromMember st c b₁ t₁ = applyFromMember st c b₂ t₂ := by
  rw [hb, ht]

/-- a receiver's applied proposals are exactly the ones it was given -/
theorem receive_applies_all {c : Nat} {b : Bundle} {t : Tree} {out : EditOut}
    (h : applyFromMember .receive c b t = .ok out) : out.bundle = b :=
  receive_bundle h

/-- all receivers of the committer's bundle report the committer's applied proposals (any branch) -/
theorem receivers_report_committed {c : Nat} {b : Bundle} {t : Tree} {out out' : EditOut}
    (_h : applyFromMember .send c b t = .ok out)
    (h' : applyFromMember .receive c out.bundle t = .ok out') : out'.bundle = out.bundle :=
  receive_bundle h'

/-- applied ⊆ input, per type and in order (either mode) -/
theorem applied_sublist {st : Strategy} {c : Nat} {b : Bundle} {t : Tree} {out : EditOut}
    (h : applyFromMember st c b t = .ok out) :
    out.bundle.adds.Sublist b.adds ∧ out.bundle.updates.Sublist b.updates ∧
      out.bundle.removes.Sublist b.removes ∧ out.bundle.psks.Sublist b.psks ∧
      out.bundle.reinits.Sublist b.reinits ∧ out.bundle.extInits.Sublist b.extInits ∧
      out.bundle.gces.Sublist b.gces :=
  out_sublists h

theorem applied_sublist_all {st : Strategy} {c : Nat} {b : Bundle} {t : Tree} {out : EditOut}
    (h : applyFromMember st c b t = .ok out) : out.bundle.all.Sublist b.all := by
  obtain ⟨h1, h2, h3, h4, h5, h6, h7⟩ := out_sublists h
  unfold Bundle.all
  exact ((((((h1.append h2).append h3).append h4).append h5).append h6).append h7)

/-- a proposal that did not come by reference is never dropped silently: an add, remove, psk, gce or
re-init by value (or local) is in the committed bundle whenever the commit is built; external inits
never are.  (A *local* update whose new leaf collides is dropped by `batch_edit` without an error; by-value
updates are refused outright: `update_byValue_forbidden`.) -/
theorem by_value_kept {c : Nat} {b : Bundle} {t : Tree} {out : EditOut}
    (h : applyFromMember .send c b t = .ok out) {p : Proposal} (hv : p.byRef = false) :
    (p ∈ b.adds → p ∈ out.bundle.adds) ∧ (p ∈ b.removes → p ∈ out.bundle.removes) ∧
      (p ∈ b.psks → p ∈ out.bundle.psks) ∧ (p ∈ b.gces → p ∈ out.bundle.gces) ∧
      (p ∈ b.reinits → p ∈ out.bundle.reinits) ∧ p ∉ b.extInits :=
  run_keeps h (by rw [ignore_send]; exact hv)

/-! ### 3. the rules

`Enforced c b t k p` (defined in `Proofs/ProposalsRules`) bundles the three faces for an offending
proposal `p` in the list of kind `k`:
`never_by_value : p.byRef = false → ∃ e, applyFromMember .send c b t = .error e`
(covers `src = byValue` — `Enforced.never_byValue` — and `src = loc`),
`dropped_by_ref : ∀ out, applyFromMember .send c b t = .ok out → p ∉ out.bundle.byKind k`
(and `p ∉ out.bundle.all` for well-kinded bundles, `Enforced.dropped_all`),
`rejected : ∃ e, applyFromMember .receive c b t = .error e`. -/

/-- wrong sender for the proposal type -/
theorem rule_wrong_sender {c : Nat} {b : Bundle} {t : Tree} {k : Kind} {p : Proposal}
    (hp : p ∈ b.byKind k) (hbad : canPropose p.sender k p.src = false) : Enforced c b t k p :=
  Enforced.of_clean hp fun B hB hm => by
    have := hB.sender k p hm; rw [hbad] at this; cases this

/-- the same for a bundle built from a list, with the proposal's own kind -/
theorem rule_wrong_sender_ofList {c : Nat} {ps : List Proposal} {t : Tree} {p : Proposal}
    (hp : p ∈ ps) (hbad : canPropose p.sender p.kind p.src = false) :
    Enforced c (Bundle.ofList ps) t p.kind p ∧
      ∀ out, applyFromMember .send c (Bundle.ofList ps) t = .ok out → p ∉ out.bundle.all := by
  have hm : p ∈ (Bundle.ofList ps).byKind p.kind := by
    rw [Bundle.ofList_byKind]; exact List.mem_filter.2 ⟨hp, by simp⟩
  have he := rule_wrong_sender (c := c) (t := t) hm hbad
  exact ⟨he, fun out ho => he.dropped_all (Bundle.ofList_wellKinded ps) hm ho⟩

/-- an update from the committer -/
theorem rule_update_of_committer {c : Nat} {b : Bundle} {t : Tree} {p : Proposal}
    (hp : p ∈ b.updates) (hbad : p.sender = .member c) : Enforced c b t .update p :=
  Enforced.of_clean (k := .update) hp fun B hB hm => by
    have := (hB.updates p hm).2; simp [hbad] at this

/-- removal of the committer -/
theorem rule_remove_committer {c : Nat} {b : Bundle} {t : Tree} {p : Proposal}
    (hp : p ∈ b.removes) (hbad : p.target = c) : Enforced c b t .remove p :=
  Enforced.of_clean (k := .remove) hp fun B hB hm => by
    have := (hB.removes p hm).2; simp [hbad] at this

/-- a PSK proposal that is invalid or whose key is unknown -/
theorem rule_psk_invalid {c : Nat} {b : Bundle} {t : Tree} {p : Proposal}
    (hp : p ∈ b.psks) (hbad : p.ok = false) : Enforced c b t .psk p :=
  Enforced.of_clean (k := .psk) hp fun B hB hm => by
    have := (hB.psks p hm).2; rw [hbad] at this; cases this

/-- duplicate PSK ids: never in a committed bundle, … -/
theorem rule_psk_duplicate_out {st : Strategy} {c : Nat} {b : Bundle} {t : Tree} {out : EditOut}
    (h : applyFromMember st c b t = .ok out) : (out.bundle.psks.map (·.pskId)).Nodup :=
  (out_clean h).psksNodup

/-- … rejected when received, … -/
theorem rule_psk_duplicate_rejected {c : Nat} {b : Bundle} {t : Tree}
    (hbad : ¬ (b.psks.map (·.pskId)).Nodup) : ∃ e, applyFromMember .receive c b t = .error e :=
  not_ok_error fun _ h => hbad (receive_clean h).psksNodup

/-- … and a PSK proposal by value that repeats the id of an earlier one (one that its sender may send)
makes the commit fail -/
theorem rule_psk_duplicate_by_value {c : Nat} {b : Bundle} {t : Tree} {l1 l2 l3 : List Proposal}
    {q p : Proposal} (hb : b.psks = l1 ++ q :: (l2 ++ p :: l3)) (he : q.pskId = p.pskId)
    (hq : canPropose q.sender .psk q.src = true) (hv : p.byRef = false) :
    ∃ e, applyFromMember .send c b t = .error e :=
  dup_psk_send_error hb he hq hv

/-- a group-context-extensions proposal that the application rejects (external senders' credentials) -/
theorem rule_gce_invalid {c : Nat} {b : Bundle} {t : Tree} {p : Proposal}
    (hp : p ∈ b.gces) (hbad : p.ok = false) : Enforced c b t .gce p :=
  Enforced.of_clean (k := .gce) hp fun B hB hm => by
    have := (hB.gces p hm).2; rw [hbad] at this; cases this

/-- more than one group-context-extensions: never committed, … -/
theorem rule_gce_second_out {st : Strategy} {c : Nat} {b : Bundle} {t : Tree} {out : EditOut}
    (h : applyFromMember st c b t = .ok out) : out.bundle.gces.length ≤ 1 :=
  (out_clean h).gcesOne

/-- … rejected when received, … -/
theorem rule_gce_second_rejected {c : Nat} {b : Bundle} {t : Tree} (hbad : 2 ≤ b.gces.length) :
    ∃ e, applyFromMember .receive c b t = .error e :=
  not_ok_error fun _ h => by have := (receive_clean h).gcesOne; omega

/-- … and a second one by value (after one that passes the earlier filters) makes the commit fail -/
theorem rule_gce_second_by_value {c : Nat} {b : Bundle} {t : Tree} {l1 l2 l3 : List Proposal}
    {g1 g2 : Proposal} (hb : b.gces = l1 ++ g1 :: (l2 ++ g2 :: l3))
    (hq : canPropose g1.sender .gce g1.src = true) (hok : g1.ok = true) (hv : g2.byRef = false) :
    ∃ e, applyFromMember .send c b t = .error e :=
  second_gce_send_error hb hq hok hv

/-- a group-context-extensions proposal that some leaf of the new tree does not support -/
theorem rule_gce_unsupported {c : Nat} {b : Bundle} {t : Tree} {p : Proposal}
    (hp : p ∈ b.gces) (hbad : p.capsOk = false) : Enforced c b t .gce p :=
  Enforced.of_out (k := .gce) (by decide) hp fun st out h hm => by
    have := out_gce_caps h p hm; rw [hbad] at this; cases this

/-- a re-init with an unacceptable protocol version -/
theorem rule_reinit_invalid {c : Nat} {b : Bundle} {t : Tree} {p : Proposal}
    (hp : p ∈ b.reinits) (hbad : p.ok = false) : Enforced c b t .reinit p :=
  Enforced.of_clean (k := .reinit) hp fun B hB hm => by
    have := (hB.reinits p hm).2; rw [hbad] at this; cases this

/-- re-init mixed with other proposals: never committed, … -/
theorem rule_reinit_alone_out {st : Strategy} {c : Nat} {b : Bundle} {t : Tree} {out : EditOut}
    (h : applyFromMember st c b t = .ok out) (hr : out.bundle.reinits ≠ []) :
    out.bundle.length = 1 := by
  rcases (out_clean h).reinitAlone with h0 | h1
  · exact absurd h0 hr
  · exact h1

/-- … rejected when received, … -/
theorem rule_reinit_alone_rejected {c : Nat} {b : Bundle} {t : Tree} (hr : b.reinits ≠ [])
    (hbad : b.length ≠ 1) : ∃ e, applyFromMember .receive c b t = .error e :=
  not_ok_error fun _ h => by
    rcases (receive_clean h).reinitAlone with h0 | h1
    · exact hr h0
    · exact hbad h1

/-- … and a re-init by value is committed alone or not at all -/
theorem rule_reinit_by_value {c : Nat} {b : Bundle} {t : Tree} {out : EditOut} {p : Proposal}
    (h : applyFromMember .send c b t = .ok out) (hp : p ∈ b.reinits) (hv : p.byRef = false) :
    p ∈ out.bundle.reinits ∧ out.bundle.length = 1 := by
  have hm := (by_value_kept h hv).2.2.2.2.1 hp
  exact ⟨hm, rule_reinit_alone_out h (List.ne_nil_of_mem hm)⟩

/-- an external init in a member's commit -/
theorem rule_external_init {c : Nat} {b : Bundle} {t : Tree} {p : Proposal}
    (hp : p ∈ b.extInits) : Enforced c b t .extInit p :=
  Enforced.of_clean (k := .extInit) hp fun B hB hm => by
    have : p ∈ B.extInits := hm
    rw [hB.extInits] at this; cases this

/-- an add whose key package / leaf node is invalid (lifetime, signature, capabilities, a credential the
application rejects) -/
theorem rule_add_invalid {c : Nat} {b : Bundle} {t : Tree} {p : Proposal}
    (hp : p ∈ b.adds) (hbad : p.ok = false) : Enforced c b t .add p :=
  Enforced.of_out (k := .add) (by decide) hp fun st out h hm => by
    have := (out_nodes_ok h).2 p hm; rw [hbad] at this; cases this

/-- an update whose leaf node is invalid (or not a valid successor) -/
theorem rule_update_invalid {c : Nat} {b : Bundle} {t : Tree} {p : Proposal}
    (hp : p ∈ b.updates) (hbad : p.ok = false) : Enforced c b t .update p :=
  Enforced.update_not_ok hp hbad

/-- removal of a blank or non-existing leaf -/
theorem rule_remove_blank {c : Nat} {b : Bundle} {t : Tree} {p : Proposal}
    (hp : p ∈ b.removes) (hbad : ∀ l, Tree.get t (2 * p.target) ≠ some (.leaf l)) :
    Enforced c b t .remove p :=
  Enforced.of_out (k := .remove) (by decide) hp fun st out h hm => by
    obtain ⟨l, hl⟩ := (out_tree_valid h).1 p hm
    exact hbad l (get_eq_some.2 hl)

/-- an add that collides (identity, HPKE key or signature key) with a leaf that no proposal of the
bundle removes or updates -/
theorem rule_add_conflict {c : Nat} {b : Bundle} {t : Tree} {p : Proposal} {i : Nat} {m : Leaf}
    (hp : p ∈ b.adds) (hm : Tree.get t (2 * i) = some (.leaf m)) (hbad : clash m p.leaf = true)
    (hr : ∀ r ∈ b.removes, r.target ≠ i) (hu : ∀ u ∈ b.updates, leafIdxOf u ≠ i) :
    Enforced c b t .add p :=
  Enforced.of_out (k := .add) (by decide) hp fun st out h ha => by
    have := out_add_noclash h ha (get_eq_some.1 hm) hr hu
    rw [hbad] at this; cases this

/-- the special case without removes and updates, with the model's own `conflicts` -/
theorem rule_add_conflict' {c : Nat} {b : Bundle} {t : Tree} {p : Proposal}
    (hp : p ∈ b.adds) (hbad : conflicts t p.leaf = true) (hr : b.removes = []) (hu : b.updates = []) :
    Enforced c b t .add p :=
  Enforced.of_out (k := .add) (by decide) hp fun st out h ha => by
    have := out_add_noconflict h ha hr hu
    rw [hbad] at this; cases this

/-- two changes to one leaf, the output side (either mode): every committed remove targets a leaf that
is there, no leaf is removed twice, every committed update comes from a member whose leaf is there, no
member updates twice, and no committed update is from a member that a committed remove removes -/
theorem rule_one_change_per_leaf_out {st : Strategy} {c : Nat} {b : Bundle} {t : Tree} {out : EditOut}
    (h : applyFromMember st c b t = .ok out) :
    (∀ r ∈ out.bundle.removes, ∃ l, Tree.get t (2 * r.target) = some (.leaf l)) ∧
      out.bundle.removes.Pairwise (fun r r' => r.target ≠ r'.target) ∧
      (∀ u ∈ out.bundle.updates, ∃ l, Tree.get t (2 * leafIdxOf u) = some (.leaf l)) ∧
      out.bundle.updates.Pairwise (fun u u' => leafIdxOf u ≠ leafIdxOf u') ∧
      (∀ u ∈ out.bundle.updates, ∀ r ∈ out.bundle.removes, leafIdxOf u ≠ r.target) := by
  obtain ⟨h1, h2, h3, h4, h5⟩ := out_tree_valid h
  exact ⟨fun r hr => (h1 r hr).imp fun l hl => get_eq_some.2 hl, h2,
    fun u hu => (h3 u hu).imp fun l hl => get_eq_some.2 hl, h4, h5⟩

/-- update of a leaf that the same bundle removes: rejected when received -/
theorem rule_update_of_removed_rejected {c : Nat} {b : Bundle} {t : Tree} {u r : Proposal}
    (hu : u ∈ b.updates) (hr : r ∈ b.removes) (hbad : leafIdxOf u = r.target) :
    ∃ e, applyFromMember .receive c b t = .error e :=
  not_ok_error fun out h => by
    have hb := receive_bundle h
    exact (out_tree_valid h).2.2.2.2 u (hb ▸ hu) r (hb ▸ hr) hbad

/-- … and never committed together (the committer drops the update, or fails) -/
theorem rule_update_of_removed_send {c : Nat} {b : Bundle} {t : Tree} {out : EditOut} {u r : Proposal}
    (h : applyFromMember .send c b t = .ok out) (hbad : leafIdxOf u = r.target) :
    ¬ (u ∈ out.bundle.updates ∧ r ∈ out.bundle.removes) :=
  fun ⟨hu, hr⟩ => (out_tree_valid h).2.2.2.2 u hu r hr hbad

/-- two removes of one leaf, or two updates from one member: rejected when received -/
theorem rule_double_change_rejected {c : Nat} {b : Bundle} {t : Tree}
    (hbad : ¬ b.removes.Pairwise (fun r r' => r.target ≠ r'.target) ∨
      ¬ b.updates.Pairwise (fun u u' => leafIdxOf u ≠ leafIdxOf u')) :
    ∃ e, applyFromMember .receive c b t = .error e :=
  not_ok_error fun out h => by
    have hb := receive_bundle h
    obtain ⟨_, h2, _, h4, _⟩ := out_tree_valid h
    rw [hb] at h2 h4
    rcases hbad with hbad | hbad
    · exact hbad h2
    · exact hbad h4

/-- by-value updates are refused whoever sends them (so "update of a removed leaf, by value" is an
error already for its sender type) -/
theorem rule_update_by_value {c : Nat} {b : Bundle} {t : Tree} {p : Proposal}
    (hp : p ∈ b.updates) (hv : p.src = .byValue) : Enforced c b t .update p :=
  rule_wrong_sender (k := .update) hp (by rw [hv]; cases p.sender <;> rfl)

/-! ### 4. the path requirement -/

theorem path_required_iff (b : Bundle) :
    pathRequired b = true ↔
      b.all = [] ∨ ∃ p ∈ b.updates ++ b.extInits ++ b.gces ++ b.removes, p.src ≠ .loc :=
  pathRequired_iff b

/-- committer and receivers agree on whether the commit must carry a path, and on the added leaves:
every receiver of the committed bundle gets a result, with the same requirement -/
theorem path_required_agree {c : Nat} {b : Bundle} {t : Tree} {out : EditOut}
    (h : applyFromMember .send c b t = .ok out) :
    ∃ out', applyFromMember .receive c out.bundle t = .ok out' ∧
      pathRequired out'.bundle = pathRequired out.bundle ∧ out'.added = out.added :=
  ⟨out, send_accepted_core h, rfl, rfl⟩

/-- whatever a receiver of the committed bundle computes has the committer's path requirement -/
theorem path_required_agree' {c : Nat} {b : Bundle} {t : Tree} {out out' : EditOut}
    (_h : applyFromMember .send c b t = .ok out)
    (h' : applyFromMember .receive c out.bundle t = .ok out') :
    pathRequired out'.bundle = pathRequired out.bundle := by
  rw [receive_bundle h']

/-! ### 5. `proposer_can_propose` -/

theorem member_byValue_update_forbidden (l : Nat) : canPropose (.member l) .update .byValue = false := rfl

theorem update_byValue_forbidden (s : Snd) : canPropose s .update .byValue = false := by
  cases s <;> rfl

theorem update_only_member_byRef_or_local {s : Snd} {src : Src}
    (h : canPropose s .update src = true) : (∃ l, s = .member l) ∧ src = .byRef ∨ src = .loc := by
  cases s <;> cases src <;> simp_all [canPropose]

theorem external_byValue_forbidden (i : Nat) (k : Kind) : canPropose (.external i) k .byValue = false := rfl

theorem external_never_update_or_extInit (i : Nat) (src : Src) (hs : src ≠ .loc) :
    canPropose (.external i) .update src = false ∧ canPropose (.external i) .extInit src = false := by
  cases src <;> simp_all [canPropose]

theorem newMemberProposal_only_add {k : Kind} {src : Src}
    (h : canPropose .newMemberProposal k src = true) : k = .add ∧ src ≠ .byValue := by
  cases src <;> cases k <;> simp_all [canPropose]

theorem newMemberCommit_byRef_forbidden (k : Kind) : canPropose .newMemberCommit k .byRef = false := rfl

theorem newMemberCommit_byValue_iff (k : Kind) :
    canPropose .newMemberCommit k .byValue = true ↔ k = .remove ∨ k = .psk ∨ k = .extInit := by
  cases k <;> simp [canPropose]

theorem extInit_only_newMemberCommit_or_local {s : Snd} {src : Src}
    (h : canPropose s .extInit src = true) : s = .newMemberCommit ∧ src = .byValue ∨ src = .loc := by
  cases s <;> cases src <;> simp_all [canPropose]

theorem member_byRef_iff (l : Nat) (k : Kind) :
    canPropose (.member l) k .byRef = true ↔ k ≠ .extInit := by
  cases k <;> simp [canPropose]

theorem local_allowed (s : Snd) (k : Kind) (hs : s ≠ .newMemberProposal) :
    canPropose s k .loc = true := by
  cases s <;> simp_all [canPropose]

/-! ### non-vacuity: the hypotheses are satisfiable, the conclusions say something -/

section Examples

/-- four members (leaves 0..3), all parents present -/
def exTree : Tree := cexTree

def exAdd : Proposal := { id := 1, kind := .add, sender := .member 1, src := .byRef, leaf := ⟨14, 24, 34⟩ }
def exAddDup : Proposal :=   -- same identity as member 3
  { id := 2, kind := .add, sender := .member 1, src := .byRef, leaf := ⟨13, 25, 35⟩ }
def exUpd : Proposal := { id := 3, kind := .update, sender := .member 1, src := .byRef, leaf := ⟨11, 26, 36⟩ }
def exUpdSelf : Proposal := { id := 4, kind := .update, sender := .member 0, src := .byRef, leaf := ⟨10, 27, 37⟩ }
def exRem : Proposal := { id := 5, kind := .remove, sender := .member 3, src := .byRef, target := 2 }
def exRemSelf : Proposal := { id := 6, kind := .remove, sender := .member 3, src := .byRef, target := 0 }
def exUpdRemoved : Proposal := { id := 7, kind := .update, sender := .member 2, src := .byRef, leaf := ⟨12, 28, 38⟩ }
def exPsk : Proposal := { id := 8, kind := .psk, sender := .member 1, src := .byValue, pskId := 7 }
def exPskDup : Proposal := { id := 9, kind := .psk, sender := .member 2, src := .byRef, pskId := 7 }
def exPskBad : Proposal := { id := 10, kind := .psk, sender := .member 2, src := .byRef, pskId := 8, ok := false }
def exGce : Proposal := { id := 11, kind := .gce, sender := .member 1, src := .byRef }
def exGce2 : Proposal := { id := 12, kind := .gce, sender := .member 2, src := .byRef }
def exGceCaps : Proposal := { id := 13, kind := .gce, sender := .member 1, src := .byRef, capsOk := false }
def exReinit : Proposal := { id := 14, kind := .reinit, sender := .member 1, src := .byRef }
def exExtUpd : Proposal := { id := 15, kind := .update, sender := .external 0, src := .byRef, leaf := ⟨11, 29, 39⟩ }

/-- a mixed bundle: everything offending came by reference -/
def exBundle : Bundle :=
  Bundle.ofList [exAdd, exAddDup, exUpd, exUpdSelf, exRem, exRemSelf, exUpdRemoved, exPsk, exPskDup,
    exPskBad, exGce, exGce2, exExtUpd]

/-- what the committer (member 0) keeps -/
def exKept : Bundle := Bundle.ofList [exAdd, exUpd, exRem, exPsk, exGce]

-- the committer drops exactly the offending ones, applies the rest: member 2 removed, member 1 updated
-- (their direct paths blanked), the new member in the freed leaf 2
example : (applyFromMember .send 0 exBundle exTree).toOption.map (·.bundle) = some exKept := by
  decide +kernel
example : (applyFromMember .send 0 exBundle exTree).toOption.map (fun o => (o.added, o.tree)) =
    some ([2], [some (.leaf ⟨10, 20, 30⟩), none, some (.leaf ⟨11, 26, 36⟩), none,
      some (.leaf ⟨14, 24, 34⟩), none, some (.leaf ⟨13, 23, 33⟩)]) := by decide +kernel
-- `send_accepted` applies (its hypothesis holds) and its conclusion is the non-trivial run above
example : NoRevert 0 exBundle exTree := by decide +kernel
example : applyFromMember .receive 0 exKept exTree = applyFromMember .send 0 exBundle exTree := by
  decide +kernel
example : ∃ out, applyFromMember .send 0 exBundle exTree = .ok out ∧
    applyFromMember .receive 0 out.bundle exTree = .ok out := by
  have hok : (applyFromMember .send 0 exBundle exTree).toOption.isSome = true := by decide +kernel
  cases h : applyFromMember .send 0 exBundle exTree with
  | error e => rw [h] at hok; cases hok
  | ok out => exact ⟨out, rfl, send_accepted_eq h⟩
-- the receiver rejects the unfiltered bundle, and each single offender
example : applyFromMember .receive 0 exBundle exTree = .error .invalidProposalTypeForSender := by
  decide +kernel
example : applyFromMember .receive 0 (Bundle.ofList [exAdd, exUpdSelf]) exTree =
    .error .invalidCommitSelfUpdate := by decide +kernel
example : applyFromMember .receive 0 (Bundle.ofList [exRemSelf]) exTree =
    .error .committerSelfRemoval := by decide +kernel
example : applyFromMember .receive 0 (Bundle.ofList [exPsk, exPskDup]) exTree = .error .psk := by
  decide +kernel
example : applyFromMember .receive 0 (Bundle.ofList [exGce, exGce2]) exTree =
    .error .moreThanOneGce := by decide +kernel
example : applyFromMember .receive 0 (Bundle.ofList [exGceCaps, exAdd]) exTree =
    .error .capabilities := by decide +kernel
example : applyFromMember .receive 0 (Bundle.ofList [exReinit, exAdd]) exTree =
    .error .otherProposalWithReInit := by decide +kernel
example : applyFromMember .receive 0 (Bundle.ofList [exRem, exUpdRemoved]) exTree =
    .error (.tree .updatingNonExistingMember) := by decide +kernel
example : applyFromMember .receive 0 (Bundle.ofList [exAddDup]) exTree =
    .error (.tree .duplicateLeafData) := by decide +kernel
example : applyFromMember .receive 0 (Bundle.ofList [{ exRem with target := 9 }]) exTree =
    .error (.tree .invalidNodeIndex) := by decide +kernel
-- the same offenders by value stop the committer
example : applyFromMember .send 0 (Bundle.ofList [exAdd, { exRemSelf with src := .byValue }]) exTree =
    .error .committerSelfRemoval := by decide +kernel
example : applyFromMember .send 0 (Bundle.ofList [exPsk, { exPskDup with src := .byValue }]) exTree =
    .error .psk := by decide +kernel
example : applyFromMember .send 0 (Bundle.ofList [{ exAddDup with src := .byValue }]) exTree =
    .error (.tree .duplicateLeafData) := by decide +kernel
-- (ii) by-reference re-inits: dropped when there is anything else, the first one kept otherwise
example : (applyFromMember .send 0 (Bundle.ofList [exReinit, exAdd]) exTree).toOption.map (·.bundle) =
    some (Bundle.ofList [exAdd]) := by decide +kernel
example : (applyFromMember .send 0 (Bundle.ofList [exReinit, { exReinit with id := 99 }]) exTree).toOption.map
    (·.bundle) = some (Bundle.ofList [exReinit]) := by decide +kernel
-- (iii) a by-reference gce that some leaf does not support: retried without it
example : (applyFromMember .send 0 (Bundle.ofList [exGceCaps, exAdd]) exTree).toOption.map (·.bundle) =
    some (Bundle.ofList [exAdd]) := by decide +kernel
-- the rule lemmas' hypotheses on the example
example : exUpdSelf ∈ exBundle.updates ∧ exUpdSelf.sender = .member 0 := by decide
example : exExtUpd ∈ exBundle.byKind .update ∧
    canPropose exExtUpd.sender .update exExtUpd.src = false := by decide
example : exBundle.WellKinded := Bundle.ofList_wellKinded _
example : exAddDup ∈ exBundle.adds ∧ Tree.get exTree (2 * 3) = some (.leaf ⟨13, 23, 33⟩) ∧
    clash ⟨13, 23, 33⟩ exAddDup.leaf = true ∧ (∀ r ∈ exBundle.removes, r.target ≠ 3) ∧
    (∀ u ∈ exBundle.updates, leafIdxOf u ≠ 3) := by decide
example : ¬ (exBundle.psks.map (·.pskId)).Nodup := by decide
example : 2 ≤ exBundle.gces.length := by decide
-- path requirement: the kept bundle needs a path (an update, a remove, a gce by reference); adds and
-- PSKs alone do not; the empty commit does
example : pathRequired exKept = true ∧ pathRequired (Bundle.ofList [exAdd, exPsk]) = false ∧
    pathRequired {} = true := by decide
-- the revert-all run: nothing applied, tree unchanged, and `revert_all_identity` applies to it
example : updatesRevert cexBundle.updates cexTree = true := by decide +kernel

end Examples

end MlsVerif.Props.C10
