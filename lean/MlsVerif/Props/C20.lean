import MlsVerif.Proofs.TreeMath
/-
C20: the array-tree index arithmetic of `mls-rs/src/tree_kem/math.rs` (model:
`Model/TreeMath.lean`) is the in-order numbered perfect binary tree of RFC 9420 Appendix C
(specification: `Spec/TreeShape.lean`), for every height `k` (tree with `2^k` leaves, nodes
`0 … 2^(k+1) - 2`) and every node.  Only statements live here; lemmas are in `Proofs/TreeMath.lean`.
-/
namespace MlsVerif.Props.C20
open MlsVerif.TreeMath MlsVerif.TreeShape

theorem root_eq_spec (k : Nat) : root (2 ^ k) = specRoot k :=
  root_eq k

theorem isInTree_iff (k x : Nat) : isInTree x (root (2 ^ k)) = true ↔ x < 2 ^ (k + 1) - 1 :=
  isInTree_iff' k x

/-- `trailing_ones` is the height of the node -/
theorem level_eq_spec (k x : Nat) (h : x < 2 ^ (k + 1) - 1) : level x = specLevel k x := by
  have := levelAt_eq k 0 x (by simp) (by simpa using h)
  rw [Nat.mul_zero] at this
  exact this.symm

theorem parentSibling_eq_spec (k x : Nat) (h : x < 2 ^ (k + 1) - 1) :
    parentSibling? x (2 ^ k) = specParentSibling k x :=
  parentSibling?_eq_spec k x h

/-- `parent_sibling` is `None` exactly at the root (for every `x`, `n`): the model's
"unreachable" branch (`trailing_ones - 1` underflow on the computed parent) is never taken. -/
theorem parentSibling_none_iff (x n : Nat) : parentSibling? x n = none ↔ x = root n := by
  rw [parentSibling?_eq]; split <;> simp [*]

theorem children_eq_spec (k x : Nat) (h : x < 2 ^ (k + 1) - 1) :
    left? x = specLeft k x ∧ right? x = specRight k x := by
  have h1 := leftAt_eq k 0 x (by simp) (by simpa using h)
  have h2 := rightAt_eq k 0 x (by simp) (by simpa using h)
  rw [Nat.mul_zero] at h1 h2
  exact ⟨h1.symm, h2.symm⟩

theorem directCopath_eq_spec (k x : Nat) (h : x < 2 ^ (k + 1) - 1) :
    directCopath x (2 ^ k) = specPath k x :=
  directCopath_eq k x h

/-- The fuel of the model's `while let` loop is no restriction: inside the tree the loop stops by
reaching the root after at most `k` steps, whatever fuel `≥ k` it is given. -/
theorem directCopath_fuel_enough (k x fuel : Nat) (h : x < 2 ^ (k + 1) - 1) (hf : k ≤ fuel) :
    directCopathAux (2 ^ k) fuel x = specPath k x :=
  directCopathAux_eq k fuel x h (Nat.le_trans (pathAt_length_le 0 k x) hf)

/-- The parent computed by `parent_sibling` is exactly one level above `x`, hence not a leaf:
`left_unchecked`/`right_unchecked` on it never underflow (for every `x`, `n`). -/
theorem parent_not_leaf (x n p s : Nat) (h : parentSibling? x n = some (p, s)) :
    level p = level x + 1 ∧ isLeaf p = false := by
  have hl := level_parent x n p s h
  have hz := level_eq_zero_iff p
  refine ⟨hl, ?_⟩
  unfold isLeaf
  simp only [beq_eq_false_iff_ne, ne_eq]
  omega

/-- out-of-tree indices are reported as such (empty path), not mapped to another node -/
theorem directCopath_outside (k x : Nat) (h : ¬ x < 2 ^ (k + 1) - 1) :
    directCopath x (2 ^ k) = [] := by
  have : isInTree x (root (2 ^ k)) = false := by
    rw [← Bool.not_eq_true, isInTree_iff]; exact h
  simp [directCopath, this]

/-- parent, sibling, children and the whole direct path / copath of an in-tree node are in-tree -/
theorem closed (k x : Nat) (h : x < 2 ^ (k + 1) - 1) :
    (∀ p s, parentSibling? x (2 ^ k) = some (p, s) →
      p < 2 ^ (k + 1) - 1 ∧ s < 2 ^ (k + 1) - 1) ∧
    (∀ c, left? x = some c → c < 2 ^ (k + 1) - 1) ∧
    (∀ c, right? x = some c → c < 2 ^ (k + 1) - 1) ∧
    (∀ ps, ps ∈ directCopath x (2 ^ k) → ps.1 < 2 ^ (k + 1) - 1 ∧ ps.2 < 2 ^ (k + 1) - 1) := by
  refine ⟨?_, ?_, ?_, ?_⟩
  · intro p s hps
    rw [parentSibling_eq_spec k x h] at hps
    have := parentSiblingAt_range 0 k x (p, s) hps
    simp only at this; omega
  · intro c hc
    rw [(children_eq_spec k x h).1] at hc
    have := leftAt_range 0 k x c hc; omega
  · intro c hc
    rw [(children_eq_spec k x h).2] at hc
    have := rightAt_range 0 k x c hc; omega
  · intro ps hps
    rw [directCopath_eq_spec k x h] at hps
    have := pathAt_range 0 k x ps hps; omega

/-- LCA of two distinct leaves, node-index form (`leaf_lca_level(2i, 2j) - 2`) -/
theorem lca_node_form (k i j : Nat) (hi : i < 2 ^ k) (hj : j < 2 ^ k) (hne : i ≠ j) :
    2 ≤ leafLcaLevel (2 * i) (2 * j) ∧
    ((directCopath (2 * i) (2 ^ k))[leafLcaLevel (2 * i) (2 * j) - 2]?).map (·.1)
      = some (specLca k (2 * i) (2 * j)) := by
  have e := pow_succ' k
  have hpos := leafLcaLevel_pos i j hne
  have hs := leafLcaLevel_spec i j
  rw [leafLcaLevel_double i j hne, directCopath_eq_spec k (2 * i) (by omega)]
  refine ⟨by omega, ?_⟩
  have := lcaAt_path k 0 i j (leafLcaLevel i j) (by simp) (by simp; omega) (by simp)
    (by simp; omega) hne hs.1 hs.2
  rw [Nat.mul_zero] at this
  exact this

/-- LCA of two distinct leaves, leaf-index form (`leaf_lca_level(i, j) - 1`) -/
theorem lca_leaf_form (k i j : Nat) (hi : i < 2 ^ k) (hj : j < 2 ^ k) (hne : i ≠ j) :
    1 ≤ leafLcaLevel i j ∧
    ((directCopath (2 * i) (2 ^ k))[leafLcaLevel i j - 1]?).map (·.1)
      = some (specLca k (2 * i) (2 * j)) := by
  have h := lca_node_form k i j hi hj hne
  rw [leafLcaLevel_double i j hne] at h
  exact ⟨leafLcaLevel_pos i j hne, h.2⟩

theorem subtree_eq_spec (k x : Nat) (h : x < 2 ^ (k + 1) - 1) :
    subtree x = specLeafRange k x := by
  have := leafRangeAt_eq k 0 x (by simp) (by simpa using h)
  rw [Nat.mul_zero] at this
  exact this.symm

theorem bfs_eq_levels (k : Nat) : bfsTopDown (2 ^ k) = specLevels k :=
  bfsTopDown_eq k

theorem fits_u32 (k x : Nat) (hk : k ≤ 24) (h : x < 2 ^ (k + 1) - 1) :
    -- inputs of `is_in_tree`
    x < 2 ^ 32 ∧ 2 * root (2 ^ k) < 2 ^ 32 ∧
    -- `parent_sibling`: shift amounts, masks, the parent before the sibling is computed
    level x + 1 < 32 ∧ 1 <<< (level x + 1) < 2 ^ 32 ∧ 1 <<< level x < 2 ^ 32 ∧
    clearBit x (level x + 1) ||| 1 <<< level x < 2 ^ 32 ∧
    -- `left_unchecked` / `right_unchecked`: `trailing_ones - 1` underflows exactly on leaves,
    (((left? x).isSome = !isLeaf x) ∧ ((right? x).isSome = !isLeaf x)) ∧
    -- and never on the parent computed inside `parent_sibling` (it is one level above `x`)
    (∀ p s, parentSibling? x (2 ^ k) = some (p, s) → level p = level x + 1) ∧
    1 <<< (level x - 1) < 2 ^ 32 ∧ 3 <<< (level x - 1) < 2 ^ 32 ∧
    x ^^^ (1 <<< (level x - 1)) < 2 ^ 32 ∧ x ^^^ (3 <<< (level x - 1)) < 2 ^ 32 ∧
    -- `subtree`: `x + 1 - breadth` does not underflow, `x + breadth` does not overflow
    1 <<< level x ≤ x + 1 ∧ x + 1 <<< level x < 2 ^ 32 ∧
    -- results
    (∀ p s, parentSibling? x (2 ^ k) = some (p, s) → p < 2 ^ 32 ∧ s < 2 ^ 32) ∧
    (∀ c, left? x = some c → c < 2 ^ 32) ∧ (∀ c, right? x = some c → c < 2 ^ 32) ∧
    (∀ ps, ps ∈ directCopath x (2 ^ k) → ps.1 < 2 ^ 32 ∧ ps.2 < 2 ^ 32) ∧
    (subtree x).1 < 2 ^ 32 ∧ (subtree x).2 < 2 ^ 32 := by
  have hl := level_le k x h
  have hK : 2 ^ (k + 1) ≤ 2 ^ 25 := Nat.pow_le_pow_right (by decide) (by omega)
  have hk' : 2 ^ k ≤ 2 ^ 24 := Nat.pow_le_pow_right (by decide) hk
  have hL : 2 ^ level x ≤ 2 ^ 24 := Nat.pow_le_pow_right (by decide) (by omega)
  have hL1 : 2 ^ (level x + 1) ≤ 2 ^ 25 := Nat.pow_le_pow_right (by decide) (by omega)
  have hL0 : 2 ^ (level x - 1) ≤ 2 ^ 24 := Nat.pow_le_pow_right (by decide) (by omega)
  have hlx := two_pow_level_le x
  have hx : x < 2 ^ 32 := by omega
  have hc := closed k x h
  have h1 : 1 <<< (level x - 1) < 2 ^ 32 := by rw [Nat.one_shiftLeft]; omega
  have h3 : 3 <<< (level x - 1) < 2 ^ 32 := by rw [Nat.shiftLeft_eq]; omega
  refine ⟨hx, by unfold root; omega, by omega, by rw [Nat.one_shiftLeft]; omega,
    by rw [Nat.one_shiftLeft]; omega, ?_, ?_, fun p s hps => level_parent x _ p s hps,
    h1, h3, Nat.xor_lt_two_pow hx h1, Nat.xor_lt_two_pow hx h3,
    by rw [Nat.one_shiftLeft]; exact hlx, by rw [Nat.one_shiftLeft]; omega, ?_, ?_, ?_, ?_, ?_⟩
  · apply Nat.or_lt_two_pow
    · have := clearBit_le x (level x + 1); omega
    · rw [Nat.one_shiftLeft]; omega
  · have hz := level_eq_zero_iff x
    unfold left? right? isLeaf
    constructor <;> split <;> simp <;> omega
  · intro p s hps; have := hc.1 p s hps; omega
  · intro c hcc; have := hc.2.1 c hcc; omega
  · intro c hcc; have := hc.2.2.1 c hcc; omega
  · intro ps hps; have := hc.2.2.2 ps hps; omega
  · unfold subtree
    simp only [Nat.one_shiftLeft]
    have h1 := Nat.div_le_self (x + 1 - 2 ^ level x) 2
    have h2 := Nat.div_le_self (x + 2 ^ level x) 2
    constructor <;> omega

/-! ### Non-vacuity

Concrete values for `k = 3` (8 leaves, nodes 0…14) and `k = 5` (32 leaves, nodes 0…62).  The
model is evaluated directly by the kernel (`decide +kernel`: plain kernel reduction, no extra
axiom; `level` is defined by well-founded recursion, which elaborator-`decide` does not unfold);
the specification is structurally recursive and evaluated by `decide`.  The values agree with the
test vectors in `math.rs` (`test_bfs_iterator`, `test_direct_path`, `test_copath_path`). -/

-- the hypotheses of the theorems are satisfiable
example : (4 : Nat) < 2 ^ (3 + 1) - 1 ∧ (22 : Nat) < 2 ^ (5 + 1) - 1 := by decide
example : ¬ (15 : Nat) < 2 ^ (3 + 1) - 1 := by decide
example : (2 : Nat) < 2 ^ 3 ∧ (5 : Nat) < 2 ^ 3 ∧ (2 : Nat) ≠ 5 := by decide

-- model, evaluated
example : root (2 ^ 3) = 7 ∧ root (2 ^ 5) = 31 := by decide
example : (List.range 15).map level = [0, 1, 0, 2, 0, 1, 0, 3, 0, 1, 0, 2, 0, 1, 0] := by
  decide +kernel
example : (List.range 15).map (parentSibling? · (2 ^ 3)) =
    [some (1, 2), some (3, 5), some (1, 0), some (7, 11), some (5, 6), some (3, 1), some (5, 4),
     none, some (9, 10), some (11, 13), some (9, 8), some (7, 3), some (13, 14), some (11, 9),
     some (13, 12)] := by decide +kernel
example : (List.range 15).map left? =
    [none, some 0, none, some 1, none, some 4, none, some 3, none, some 8, none, some 9, none,
     some 12, none] := by decide +kernel
example : (List.range 15).map right? =
    [none, some 2, none, some 5, none, some 6, none, some 11, none, some 10, none, some 13, none,
     some 14, none] := by decide +kernel
example : (List.range 15).map subtree =
    [(0, 1), (0, 2), (1, 2), (0, 4), (2, 3), (2, 4), (3, 4), (0, 8), (4, 5), (4, 6), (5, 6),
     (4, 8), (6, 7), (6, 8), (7, 8)] := by decide +kernel
example : directCopath 4 (2 ^ 3) = [(5, 6), (3, 1), (7, 11)] := by decide +kernel
example : directCopath 14 (2 ^ 3) = [(13, 12), (11, 9), (7, 3)] := by decide +kernel
example : directCopath 7 (2 ^ 3) = [] ∧ directCopath 15 (2 ^ 3) = [] := by decide +kernel
example : directCopath 22 (2 ^ 5) = [(21, 20), (19, 17), (23, 27), (15, 7), (31, 47)] := by
  decide +kernel
example : directCopath 62 (2 ^ 5) = [(61, 60), (59, 57), (55, 51), (47, 39), (31, 15)] := by
  decide +kernel
example : directCopath 63 (2 ^ 5) = [] := by decide +kernel
example : parentSibling? 47 (2 ^ 5) = some (31, 15) ∧ parentSibling? 31 (2 ^ 5) = none ∧
    left? 47 = some 39 ∧ right? 47 = some 55 ∧ subtree 47 = (16, 32) ∧ level 47 = 4 := by
  decide +kernel
example : bfsTopDown (2 ^ 3) = [7, 3, 11, 1, 5, 9, 13, 0, 2, 4, 6, 8, 10, 12, 14] := by
  decide +kernel
example : (bfsTopDown (2 ^ 5)).take 9 = [31, 15, 47, 7, 23, 39, 55, 3, 11] ∧
    (bfsTopDown (2 ^ 5)).length = 63 := by decide +kernel
-- leaves 2 and 5 of 8 (nodes 4 and 10): LCA is the root 7, third entry of the path of node 4
example : leafLcaLevel 4 10 = 4 ∧ leafLcaLevel 2 5 = 3 ∧ specLca 3 4 10 = 7 ∧
    ((directCopath 4 (2 ^ 3))[leafLcaLevel 2 5 - 1]?).map (·.1) = some 7 := by decide +kernel
-- leaves 11 and 22 of 32 (nodes 22 and 44): LCA is the root 31
example : leafLcaLevel 22 44 = 6 ∧ leafLcaLevel 11 22 = 5 ∧ specLca 5 22 44 = 31 := by
  decide +kernel
-- leaves 12 and 13 of 32 (nodes 24 and 26): LCA is their common parent 25
example : leafLcaLevel 12 13 = 1 ∧ specLca 5 24 26 = 25 ∧
    ((directCopath 24 (2 ^ 5))[leafLcaLevel 12 13 - 1]?).map (·.1) = some 25 := by decide +kernel

-- specification, evaluated (same values)
example : specRoot 3 = 7 ∧ specRoot 5 = 31 := by decide
example : specPath 3 4 = [(5, 6), (3, 1), (7, 11)] := by decide
example : specPath 5 22 = [(21, 20), (19, 17), (23, 27), (15, 7), (31, 47)] := by decide
example : specParentSibling 5 47 = some (31, 15) ∧ specParentSibling 5 31 = none ∧
    specLeft 5 47 = some 39 ∧ specRight 5 47 = some 55 ∧ specLeafRange 5 47 = (16, 32) ∧
    specLevel 5 47 = 4 := by decide
example : specLevels 3 = [7, 3, 11, 1, 5, 9, 13, 0, 2, 4, 6, 8, 10, 12, 14] := by decide

-- the theorems instantiated
example : directCopath 4 (2 ^ 3) = specPath 3 4 := directCopath_eq_spec 3 4 (by decide)
example : parentSibling? 47 (2 ^ 5) = specParentSibling 5 47 :=
  parentSibling_eq_spec 5 47 (by decide)
example : ((directCopath 22 (2 ^ 5))[leafLcaLevel 11 22 - 1]?).map (·.1) = some (specLca 5 22 44) :=
  (lca_leaf_form 5 11 22 (by decide) (by decide) (by decide)).2

end MlsVerif.Props.C20
