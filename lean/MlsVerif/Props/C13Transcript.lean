/-
Transcript hashes / membership tag on real message bytes (`Model/Transcript.lean`, driver rows `th`, `mtag`).

* `interim_confirmed_chain` (+ `_dec`, `_inv`): the pair answered by `th` is exactly
  `(Hash(interim ‖ ConfirmedTranscriptHashInput), Hash(confirmed ‖ InterimTranscriptHashInput))` (RFC 9420 §8.2) on the
  spans the decoder extracts — the driver function is the RFC formulas composed with `C_MlsMessage.dec`.
* `membership_tag_chain`: the same for `mtag` (§6.2): the verdict compares the carried tag with
  `MAC(membership_key, version ‖ wire_format ‖ FramedContent ‖ GroupContext ‖ signature<V> ‖ [confirmation_tag<V>])`.
* `confirmed_binds`: for an injective hash, the confirmed transcript hash determines the previous interim hash (of
  fixed length `Nh`) and the whole `ConfirmedTranscriptHashInput`; `interim_binds`: the interim hash determines the
  confirmed hash and the confirmation tag; `confirmedInput_binds`: the input determines the framed-content VALUE and
  the signature (prefix-freeness of the codec = round-trip law `Lawful.rt` of `C_FramedContent`), so together
  (`confirmed_binds_content`) the confirmed transcript hash binds previous interim hash, content and signature.
* `parsePublic_encoded`: on the encoding of a well-formed `MlsMessage` value the extraction sees that value
  (`Props.C12GenCodecs.generated_roundtrip`), i.e. the re-encoded spans are spans of the original message.
* non-vacuity: a hand-made commit (`sampleMsg`), run through `th` / `mtag` for an arbitrary hash / MAC.

Injectivity of a hash is of course an idealisation (collision resistance); it is a HYPOTHESIS of the binding
theorems, written out without Mathlib.
-/
import MlsVerif.Model.Transcript
import MlsVerif.Props.C12GenCodecs

namespace MlsVerif.Props.C13Transcript
open MlsVerif.Codec MlsVerif.Codec.Codec MlsVerif.Gen.Codecs MlsVerif.Transcript

/-! ## `varBytes` is the codec's `byte_vec` -/

/-- `varBytes` is what the codec writes for a byte-string newtype (`MessageSignature`, `ConfirmationTag`,
`MembershipTag`) up to the varint range, which is all a decoder can return -/
theorem varBytes_enc (b : Bytes) (h : b.length ≤ varintMax) :
    bytesNewtype.enc (.tuple [.bytes b]) = .ok (varBytes b) := by
  simp [bytesNewtype, ofSchema, encode, encodeFields, encodeLenPrefixed_of_le h, varBytes]

/-- `x<V>` is prefix free -/
theorem varBytes_inj {a b r r' : Bytes} (ha : a.length ≤ varintMax) (hb : b.length ≤ varintMax)
    (h : varBytes a ++ r = varBytes b ++ r') : a = b ∧ r = r' := by
  have h1 := decodeSplit_append a r ha
  have h2 := decodeSplit_append b r' hb
  simp only [varBytes, List.append_assoc] at h
  rw [h, h2] at h1
  injection h1 with h1
  injection h1 with h3 h4
  exact ⟨h3.symm, h4.symm⟩

/-! ## (i) the driver functions are the RFC formulas on the extracted spans -/

/-- `th`: `(confirmed, interim) = (Hash(interim_prev ‖ input), Hash(confirmed ‖ confirmation_tag<V>))` with
`input = wire_format ‖ FramedContent ‖ signature<V>`, on the spans `parsePublic` extracts. -/
theorem interim_confirmed_chain (hash : Bytes → Bytes) (interimPrev msg : Bytes) (p : PublicParts) (tag : Bytes)
    (hp : parsePublic msg = .ok p) (hc : p.isCommit = true) (ht : p.confirmationTag = some tag) :
    transcriptHashesWith hash interimPrev msg =
      .ok (hash (interimPrev ++ (u16 1 ++ p.framedContent ++ varBytes p.signature)),
           hash (hash (interimPrev ++ (u16 1 ++ p.framedContent ++ varBytes p.signature)) ++ varBytes tag)) := by
  simp [transcriptHashesWith, hp, hashesOfParts, hc, ht, confirmedHashWith, interimHashWith,
    PublicParts.confirmedInput, confirmedTranscriptHashInput, interimTranscriptHashInput, wirePublic]

/-- … in terms of the model's named formulas -/
theorem interim_confirmed_chain' (hash : Bytes → Bytes) (interimPrev msg : Bytes) (p : PublicParts) (tag : Bytes)
    (hp : parsePublic msg = .ok p) (hc : p.isCommit = true) (ht : p.confirmationTag = some tag) :
    transcriptHashesWith hash interimPrev msg =
      .ok (confirmedHashWith hash interimPrev (confirmedTranscriptHashInput wirePublic p.framedContent p.signature),
           interimHashWith hash
             (confirmedHashWith hash interimPrev (confirmedTranscriptHashInput wirePublic p.framedContent p.signature))
             tag) := by
  simp [transcriptHashesWith, hp, hashesOfParts, hc, ht, PublicParts.confirmedInput]

/-- … composed with the decoder: whenever `C_MlsMessage` decodes the bytes to a public message (wire format 1) whose
content is a commit, with re-encoded framed content `fcb`. -/
theorem interim_confirmed_chain_dec (hash : Bytes → Bytes) (interimPrev msg rest : Bytes) (ver : Nat) (fc : Value)
    (sig tag : Bytes) (mt : Option Bytes) (fcb : Bytes)
    (hd : C_MlsMessage.dec msg = .ok (publicMessageValue ver fc sig (some tag) mt, rest))
    (he : C_FramedContent.enc fc = .ok fcb) (hc : fcIsCommit fc = true) :
    transcriptHashesWith hash interimPrev msg =
      .ok (hash (interimPrev ++ (u16 1 ++ fcb ++ varBytes sig)),
           hash (hash (interimPrev ++ (u16 1 ++ fcb ++ varBytes sig)) ++ varBytes tag)) := by
  have hp : parsePublic msg = .ok
      { version := ver, content := fc, framedContent := fcb, signature := sig, confirmationTag := some tag,
        membershipTag := mt } := by
    cases mt <;>
      simp [parsePublic, hd, partsOfMessage, publicMessageValue, partsOfPublic, newtypeBytes, optNewtypeBytes, he]
  exact interim_confirmed_chain hash interimPrev msg _ tag hp hc rfl

/-- converse: every answer of `th` comes from a decodable public-message commit and has that form -/
theorem interim_confirmed_chain_inv (hash : Bytes → Bytes) (interimPrev msg c i : Bytes)
    (h : transcriptHashesWith hash interimPrev msg = .ok (c, i)) :
    ∃ p tag, parsePublic msg = .ok p ∧ p.isCommit = true ∧ p.confirmationTag = some tag ∧
      c = hash (interimPrev ++ (u16 1 ++ p.framedContent ++ varBytes p.signature)) ∧
      i = hash (c ++ varBytes tag) := by
  unfold transcriptHashesWith at h
  split at h
  · cases h
  · rename_i p hp
    unfold hashesOfParts at h
    split at h
    · rename_i hc
      split at h
      · rename_i tag ht
        injection h with h
        injection h with h1 h2
        refine ⟨p, tag, hp, hc, ht, ?_, ?_⟩
        · rw [← h1]; simp [confirmedHashWith, PublicParts.confirmedInput, confirmedTranscriptHashInput, wirePublic]
        · rw [← h2, ← h1]; simp [interimHashWith, interimTranscriptHashInput]
      · cases h
    · cases h

/-- `mtag`: the verdict is the comparison of the carried tag with
`MAC(key, version ‖ wire_format ‖ FramedContent ‖ GroupContext ‖ signature<V> ‖ [confirmation_tag<V>])`. -/
theorem membership_tag_chain (mac : Bytes → Bytes → Bytes) (key ctx msg : Bytes) (p : PublicParts) (ver : Nat)
    (ctxb tag : Bytes) (hp : parsePublic msg = .ok p) (hx : parseContext ctx = .ok (ver, ctxb))
    (hm : p.senderIsMember = true) (ht : p.membershipTag = some tag) :
    let expected := mac key (u16 ver ++ u16 1 ++ p.framedContent ++ ctxb ++
      (varBytes p.signature ++ (match p.confirmationTag with | none => [] | some t => varBytes t)))
    checkMembershipTagWith mac key ctx msg = .ok (if expected == tag then .ok else .bad expected) := by
  have hg : fcSenderInGroup p.content = true := by
    unfold PublicParts.senderIsMember at hm
    simp [fcSenderInGroup, hm]
  simp only [checkMembershipTagWith, hp, hx, tagOfParts, hm, ht, membershipTagWith, PublicParts.tbm,
    authenticatedContentTBM, Transcript.authenticatedContentTBS, Transcript.framedContentAuthData, wirePublic, hg,
    if_true, List.append_assoc,
    Option.getD_some]
  split <;> split <;> simp_all

/-! ## Re-encoded spans are spans of the original message -/

theorem lawful_MlsMessage : Lawful C_MlsMessage := lawful_denote S_MlsMessage (by decide +kernel)
theorem lawful_FramedContent : Lawful C_FramedContent := lawful_denote S_FramedContent (by decide +kernel)
theorem lawful_GroupContext : Lawful C_GroupContext := lawful_denote S_GroupContext (by decide +kernel)

/-- On (any extension of) the encoding of a well-formed `MlsMessage` value the extraction works on exactly that value:
the framed content it re-encodes and the signature / tags it reads are the ones the encoder concatenated into the
message. -/
theorem parsePublic_encoded (V : Value) (b rest : Bytes) (hw : C_MlsMessage.wf V = true)
    (he : C_MlsMessage.enc V = .ok b) : parsePublic (b ++ rest) = partsOfMessage V := by
  simp [parsePublic, lawful_MlsMessage.rt V b rest hw he]

/-- the same through the table lookup the driver row `dec MlsMessage` uses -/
theorem parsePublic_encoded_table (V : Value) (b rest : Bytes) (hw : C_MlsMessage.wf V = true)
    (he : C_MlsMessage.enc V = .ok b) : C_MlsMessage.dec (b ++ rest) = .ok (V, rest) :=
  MlsVerif.Props.C12GenCodecs.generated_roundtrip ("MlsMessage", C_MlsMessage)
    (by simp [codecTable]) V b rest hw he

/-! ## (ii) what the hashes bind, for an injective hash -/

/-- The confirmed transcript hash determines the previous interim hash and the whole `ConfirmedTranscriptHashInput`.
The interim hashes are hash outputs, `Nh` bytes (or both empty, at the first epoch): without the length hypothesis the
split point of `interim ‖ input` would not be determined. -/
theorem confirmed_binds (hash : Bytes → Bytes) (hinj : ∀ a b, hash a = hash b → a = b) (nh : Nat)
    (i1 i2 in1 in2 : Bytes) (h1 : i1.length = nh) (h2 : i2.length = nh)
    (h : confirmedHashWith hash i1 in1 = confirmedHashWith hash i2 in2) : i1 = i2 ∧ in1 = in2 :=
  List.append_inj (hinj _ _ h) (h1.trans h2.symm)

/-- The interim transcript hash determines the confirmed transcript hash and the confirmation tag. -/
theorem interim_binds (hash : Bytes → Bytes) (hinj : ∀ a b, hash a = hash b → a = b) (nh : Nat)
    (c1 c2 t1 t2 : Bytes) (h1 : c1.length = nh) (h2 : c2.length = nh)
    (ht1 : t1.length ≤ varintMax) (ht2 : t2.length ≤ varintMax)
    (h : interimHashWith hash c1 t1 = interimHashWith hash c2 t2) : c1 = c2 ∧ t1 = t2 := by
  obtain ⟨hc, ht⟩ := List.append_inj (hinj _ _ h) (h1.trans h2.symm)
  refine ⟨hc, (varBytes_inj (r := []) (r' := []) ht1 ht2 ?_).1⟩
  simpa [interimTranscriptHashInput] using ht

/-- `ConfirmedTranscriptHashInput` is an injective encoding of (framed-content value, signature): the codec's
round-trip law makes the encoding of `FramedContent` prefix free, so the split point is determined. -/
theorem confirmedInput_binds (w fcb1 fcb2 sig1 sig2 : Bytes) (fc1 fc2 : Value)
    (hw1 : C_FramedContent.wf fc1 = true) (hw2 : C_FramedContent.wf fc2 = true)
    (he1 : C_FramedContent.enc fc1 = .ok fcb1) (he2 : C_FramedContent.enc fc2 = .ok fcb2)
    (hs1 : sig1.length ≤ varintMax) (hs2 : sig2.length ≤ varintMax)
    (h : confirmedTranscriptHashInput w fcb1 sig1 = confirmedTranscriptHashInput w fcb2 sig2) :
    fc1 = fc2 ∧ fcb1 = fcb2 ∧ sig1 = sig2 := by
  simp only [confirmedTranscriptHashInput, List.append_assoc, List.append_cancel_left_eq] at h
  have r1 := lawful_FramedContent.rt fc1 fcb1 (varBytes sig1) hw1 he1
  have r2 := lawful_FramedContent.rt fc2 fcb2 (varBytes sig2) hw2 he2
  rw [h, r2] at r1
  injection r1 with r1
  injection r1 with hv hr
  subst hv
  rw [he1] at he2
  injection he2 with he2
  exact ⟨rfl, he2, (varBytes_inj (r := []) (r' := []) hs1 hs2 (by simpa using hr.symm)).1⟩

/-- what `parsePublic` extracts is a well-formed framed content with its encoding, and in-range byte strings -/
theorem parsePublic_wf (msg : Bytes) (p : PublicParts) (hp : parsePublic msg = .ok p) :
    C_FramedContent.wf p.content = true ∧ C_FramedContent.enc p.content = .ok p.framedContent := by
  unfold parsePublic at hp
  split at hp
  · cases hp
  · rename_i v rest hd
    have hwf := (lawful_MlsMessage.dwf _ _ _ hd).1
    unfold partsOfMessage at hp
    split at hp
    · rename_i ver wire payload
      split at hp
      · rename_i hwire
        subst hwire
        unfold partsOfPublic at hp
        split at hp
        · rename_i fc sigV ctV mtV
          split at hp
          · split at hp
            · rename_i fcb he
              injection hp with hp
              subst hp
              refine ⟨?_, he⟩
              -- well-formedness of the framed content inside a well-formed `MlsMessage`
              have : (publicMessage (denote S_Content)).wf
                  (.tuple [fc, .tuple [.tuple [sigV, ctV], mtV]]) = true := by
                have := hwf
                simp only [C_MlsMessage, S_MlsMessage, S_MlsMessagePayload, S_PublicMessage, denote, denoteList,
                  denoteCases, seq, seqWF, tagged, caseOfC, Bool.and_eq_true, Bool.and_true] at this
                simpa using this.2.2
              simp only [publicMessage, dep, Bool.and_eq_true] at this
              show C_FramedContent.wf fc = true
              unfold C_FramedContent
              rw [tie_framedContent]
              exact this.1
            · cases hp
          · cases hp
        · cases hp
      · cases hp
    · cases hp

/-- For an injective hash the confirmed transcript hash of two decoded public messages (same previous-interim
length) binds the previous interim hash, the framed-content VALUE and its bytes, and the signature. -/
theorem confirmed_binds_content (hash : Bytes → Bytes) (hinj : ∀ a b, hash a = hash b → a = b) (nh : Nat)
    (i1 i2 m1 m2 : Bytes) (p1 p2 : PublicParts) (h1 : i1.length = nh) (h2 : i2.length = nh)
    (hp1 : parsePublic m1 = .ok p1) (hp2 : parsePublic m2 = .ok p2)
    (hs1 : p1.signature.length ≤ varintMax) (hs2 : p2.signature.length ≤ varintMax)
    (h : confirmedHashWith hash i1 p1.confirmedInput = confirmedHashWith hash i2 p2.confirmedInput) :
    i1 = i2 ∧ p1.content = p2.content ∧ p1.framedContent = p2.framedContent ∧ p1.signature = p2.signature := by
  obtain ⟨hi, hin⟩ := confirmed_binds hash hinj nh i1 i2 _ _ h1 h2 h
  obtain ⟨w1, e1⟩ := parsePublic_wf m1 p1 hp1
  obtain ⟨w2, e2⟩ := parsePublic_wf m2 p2 hp2
  exact ⟨hi, confirmedInput_binds wirePublic _ _ _ _ _ _ w1 w2 e1 e2 hs1 hs2 hin⟩

/-! ## (iii) non-vacuity: a hand-made commit

`MlsMessage { version: 1, Plain(PublicMessage { content: FramedContent { group_id: aa bb, epoch: 5,
sender: Member(0), authenticated_data: [], content: Commit { proposals: [], path: None } },
auth: { signature: de ad, confirmation_tag: Some(c7 c8) }, membership_tag: Some(0e 0f) }) }` -/

def sampleFc : Value := sampleContent [0xaa, 0xbb] 5 (.variant 1 (some (.nat 0))) []
def sampleV : Value := publicMessageValue 1 sampleFc [0xde, 0xad] (some [0xc7, 0xc8]) (some [0x0e, 0x0f])

/-- version, wire format, `group_id<V>`, epoch, sender, `authenticated_data<V>`, content type 3, `proposals<V>` (empty),
`path` absent, `signature<V>`, `confirmation_tag<V>`, `membership_tag<V>` -/
def sampleMsg : Bytes :=
  [0, 1, 0, 1, 2, 0xaa, 0xbb, 0, 0, 0, 0, 0, 0, 0, 5, 1, 0, 0, 0, 0, 0, 3, 0, 0,
   2, 0xde, 0xad, 2, 0xc7, 0xc8, 2, 0x0e, 0x0f]

def sampleFcBytes : Bytes := [2, 0xaa, 0xbb, 0, 0, 0, 0, 0, 0, 0, 5, 1, 0, 0, 0, 0, 0, 3, 0, 0]

theorem sample_wf : C_MlsMessage.wf sampleV = true := by decide +kernel
theorem sample_enc : C_MlsMessage.enc sampleV = .ok sampleMsg := rfl
theorem sample_fc_enc : C_FramedContent.enc sampleFc = .ok sampleFcBytes := rfl

/-- the decoder accepts the sample (through the round-trip law, not by running the decoder in the kernel) -/
theorem sample_dec : C_MlsMessage.dec sampleMsg = .ok (sampleV, []) := by
  have := lawful_MlsMessage.rt sampleV sampleMsg [] sample_wf sample_enc
  simpa using this

theorem sample_parse : parsePublic sampleMsg =
    .ok { version := 1, content := sampleFc, framedContent := sampleFcBytes, signature := [0xde, 0xad],
          confirmationTag := some [0xc7, 0xc8], membershipTag := some [0x0e, 0x0f] } := by
  have := parsePublic_encoded sampleV sampleMsg [] sample_wf sample_enc
  rw [List.append_nil] at this
  rw [this]
  rfl

/-- `th` on the sample, for any hash: the two RFC formulas on explicit bytes -/
theorem sample_th (hash : Bytes → Bytes) (interimPrev : Bytes) :
    transcriptHashesWith hash interimPrev sampleMsg =
      .ok (hash (interimPrev ++ ([0, 1] ++ sampleFcBytes ++ [2, 0xde, 0xad])),
           hash (hash (interimPrev ++ ([0, 1] ++ sampleFcBytes ++ [2, 0xde, 0xad])) ++ [2, 0xc7, 0xc8])) :=
  interim_confirmed_chain hash interimPrev sampleMsg _ [0xc7, 0xc8] sample_parse rfl rfl

/-- a group context for the sample: version 1, suite 1, group `aa bb`, epoch 5, tree hash `11`, confirmed transcript
hash `22`, no extensions -/
def sampleCtx : Bytes := [0, 1, 0, 1, 2, 0xaa, 0xbb, 0, 0, 0, 0, 0, 0, 0, 5, 1, 0x11, 1, 0x22, 0]
def sampleCtxV : Value :=
  .tuple [.tuple [.nat 1], .tuple [.nat 1], .bytes [0xaa, 0xbb], .nat 5, .bytes [0x11], .tuple [.bytes [0x22]], .list []]

theorem sampleCtx_parse : parseContext sampleCtx = .ok (1, sampleCtx) := by
  have hw : C_GroupContext.wf sampleCtxV = true := by decide +kernel
  have he : C_GroupContext.enc sampleCtxV = .ok sampleCtx := rfl
  have := lawful_GroupContext.rt sampleCtxV sampleCtx [] hw he
  rw [List.append_nil] at this
  simp only [parseContext, this]
  rw [he]
  rfl

/-- `mtag` on the sample, for any MAC: `ok` exactly when the carried tag `0e 0f` is the MAC of the TBM, which is
`version ‖ wire_format ‖ FramedContent ‖ GroupContext ‖ signature<V> ‖ confirmation_tag<V>` -/
theorem sample_mtag (mac : Bytes → Bytes → Bytes) (key : Bytes) :
    let tbm : Bytes := [0, 1] ++ [0, 1] ++ sampleFcBytes ++ sampleCtx ++ ([2, 0xde, 0xad] ++ [2, 0xc7, 0xc8])
    checkMembershipTagWith mac key sampleCtx sampleMsg =
      .ok (if mac key tbm == [0x0e, 0x0f] then .ok else .bad (mac key tbm)) :=
  membership_tag_chain mac key sampleCtx sampleMsg _ 1 sampleCtx [0x0e, 0x0f] sample_parse sampleCtx_parse rfl rfl

/-- … so a MAC that returns the carried tag is accepted and any other is refused with the recomputed value -/
example : checkMembershipTagWith (fun _ _ => [0x0e, 0x0f]) [] sampleCtx sampleMsg = .ok .ok := by
  have := sample_mtag (fun _ _ => [0x0e, 0x0f]) []
  simpa using this
example : checkMembershipTagWith (fun _ _ => [0x0e, 0x0e]) [] sampleCtx sampleMsg = .ok (.bad [0x0e, 0x0e]) := by
  have := sample_mtag (fun _ _ => [0x0e, 0x0e]) []
  simpa using this

/-- a truncated message does not decode -/
example : parsePublic [0, 1, 0, 1, 2, 0xaa] = .error "decode" := rfl
/-- a `KeyPackage`-typed message (wire format 5) that does not decode; and wire format 9 is no wire format -/
example : parsePublic [0, 1, 0, 9] = .error "decode" := rfl

end MlsVerif.Props.C13Transcript
