import MlsVerif.Model.Lifetime
/-!
# C10 (lifetime part) — a key package is added exactly inside its lifetime, on both sides

Committer and receivers run the same predicate; the only asymmetry is whose clock is used.  The statements below are
what the `life` rows of the check compare with the real library (by value: the build is refused outside the window;
by reference: the Add is dropped; receivers with a clock outside the window reject the commit).
-/
namespace MlsVerif.Props.C10Lifetime
open MlsVerif.Lifetime

/-- the window is exact and inclusive at both ends -/
theorem within_iff (w : Window) (t : Nat) : within w t = true ↔ w.notBefore ≤ t ∧ t ≤ w.notAfter := by
  simp [within]

theorem before_rejected (w : Window) (t : Nat) (h : t < w.notBefore) : addOk w (some t) = false := by
  simp [addOk, within]; omega

theorem after_rejected (w : Window) (t : Nat) (h : w.notAfter < t) : addOk w (some t) = false := by
  simp [addOk, within]; omega

theorem boundaries_accepted (w : Window) (h : w.notBefore ≤ w.notAfter) :
    addOk w (some w.notBefore) = true ∧ addOk w (some w.notAfter) = true := by
  simp [addOk, within]; omega

/-- without a clock the lifetime is not judged (receivers using `process_incoming_message`) -/
theorem no_clock_accepts (w : Window) : addOk w none = true := rfl

/-- a receiver whose clock is later than the committer's accepts what the committer kept as long as its clock has not
passed `not_after` (so a commit is rejected for its lifetime only by clocks outside the window) -/
theorem later_receiver_accepts (w : Window) (tc tr : Nat) (hc : addOk w (some tc) = true) (h1 : tc ≤ tr)
    (h2 : tr ≤ w.notAfter) : addOk w (some tr) = true := by
  simp [addOk, within] at *; omega

/-- an empty window (`not_after < not_before`) admits nothing at any clock value -/
theorem empty_window (w : Window) (h : w.notAfter < w.notBefore) (t : Nat) : addOk w (some t) = false := by
  simp [addOk, within]; omega

/-- two clocks inside the window give the same verdict; a commit built inside the window can only be rejected (for its
lifetime) by a receiver whose clock is outside it -/
theorem inside_accepts (w : Window) (t t' : Nat) (h : within w t = true) (h' : within w t' = true) :
    addOk w (some t) = addOk w (some t') := by
  simp [addOk, h, h']

example : within ⟨100, 200⟩ 150 = true ∧ within ⟨100, 200⟩ 99 = false ∧ within ⟨100, 200⟩ 201 = false := by decide

end MlsVerif.Props.C10Lifetime
