import MlsVerif.Proofs.GroupSecrecy
import MlsVerif.Proofs.GroupGhost
import MlsVerif.Proofs.GroupClosure
import MlsVerif.Proofs.GroupExample
/-!
# C02 (composed) — secrecy against removed members and outsiders, over whole histories

Adversary model: `Model/GroupAdversary.lean`.  `Derivable K S seals gens f`: a party that starts with the
private keys `K` and the secrets `S` and sees the ciphertexts `seals` — pairs (recipient key, plaintext
secret) — computes `f`, by the rules: `s ↦ path s`, `s ↦ initOf s`; a ciphertext `(k, s)` with `k` known gives
`s`; `(s, k) ∈ gens` (the node key pair generated from path secret `s`) and `s` known give the private key `k`;
`epoch i c p ctx` only from all of `i`, `c`, `p`; `zero` is public; nothing inverts `path` / `epoch` / `initOf`.

The public transcript of a commit (`Transcript`, produced by `GroupWorld.commit`): per unfiltered direct-path
node of the committer the path secret, the announced key generated from it, and the recipients — exactly
`EncapOut.seals`, each with the key stamp stored at the recipient node in the *new* tree; per joiner the group
secrets (joiner secret, path secret of the common ancestor) sealed to the init key of its key package.

`hidden (freshFrom N) s`: the secret `s` depends on a random path secret drawn by a commit at epoch `N` or
later.  Every path secret and commit secret of these commits is hidden, and — if the commit that ends epoch
`N` has a path — so is every epoch / init secret of the epochs after `N` (`HInv`).

What the key stamps mean: holding a stamp = holding the private key.  Stamps that are meant to be new are
assumed new (`CommitOk` for the tree, `NoReintro K` for the party under consideration) — "fresh keys are
fresh".  `NoReintro` also expresses "the removed member is not re-added with keys it already holds".

The removed member is given its *last* state (all private keys in its slots, its epoch and init secret) and
the transcripts of the removing commit and of all later ones.  Path secrets it decrypted earlier are not part
of a member's state (they are deleted after processing); transcripts of earlier commits are not given to it.
-/
namespace MlsVerif.Props.C02Group
open MlsVerif.Tree MlsVerif.Group

/-! ### the adversary's knowledge is bounded -/

/-- **Bound.**  `A` selects random atoms.  If the party's initial secrets do not depend on an `A`-atom, every
ciphertext addressed to one of its keys carries a secret that does not, and every key pair generated from
such a secret is its own, then it derives no key outside `K` and no secret that depends on an `A`-atom. -/
theorem adversary_bound (A : Sec → Bool) {K : List Key} {S : List Sec} {seals : List (Key × Sec)}
    {gens : List (Sec × Key)} (hS : ∀ s ∈ S, hidden A s = false)
    (hseal : ∀ k s, (k, s) ∈ seals → k ∈ K → hidden A s = false)
    (hgen : ∀ s k, (s, k) ∈ gens → hidden A s = false → k ∈ K) :
    (∀ k, Derivable K S seals gens (.key k) → k ∈ K) ∧
    (∀ s, Derivable K S seals gens (.sec s) → hidden A s = false) :=
  ⟨fun _ h => derivable_bound A hS hseal hgen h, fun _ h => derivable_bound A hS hseal hgen h⟩

/-- **Path secrets go only to entitled keys** (composed form of `seals_exact` / `seal_recipients`): every
ciphertext of a commit is addressed to the key stored at a node of the *new* tree, or to the init key of a key
package added by this very commit. -/
theorem ciphertext_recipients {w w' : GroupWorld} {tr : Transcript} {sender : Nat} {e : Edits}
    {newLeaf : Option Leaf} {fresh : Nat} {psk : Sec} {ctx : Nat} {deliverTo : List Nat}
    (h : w.commit sender e newLeaf fresh psk ctx deliverTo = .ok (w', tr)) :
    ∀ k s, (k, s) ∈ tr.seals →
      (∃ st, k = .node st ∧ st ∈ keyStamps w'.tree) ∨ (∃ L ∈ e.adds, k = .init L.hpke) :=
  seals_recipients h

/-- **Outsiders.**  A party none of whose keys is a recipient of any ciphertext of the transcripts `T`, all of
which stem from epoch `N` or later (`Closed`), and whose own secrets are older, derives no secret that depends
on a random value of epoch `N` or later. -/
theorem outsider_secrecy {N : Nat} {K : List Key} {T : List Transcript} {S : List Sec}
    (hc : Closed N K T) (hS : ∀ s ∈ S, hidden (freshFrom N) s = false) :
    ∀ s, hidden (freshFrom N) s = true → ¬ Derivable K S (sealsOfAll T) (gensOfAll T) (.sec s) :=
  closed_secrecy hc hS

/-! ### a removed member -/

/-- A member removed by a commit holds, afterwards, no key of the new tree — also when its leaf is filled
again by an Add of the same commit.  (`removed_cannot_open_seals` of `Props/C02`, for the group model.) -/
theorem removed_holds_no_key_of_new_tree {w w' : GroupWorld} {tr : Transcript} {sender : Nat} {e : Edits}
    {newLeaf : Option Leaf} {fresh : Nat} {psk : Sec} {ctx : Nat} {deliverTo : List Nat}
    (hr : Reachable w) (hok : CommitOk w sender e newLeaf fresh) {rm : Member}
    (hrm : rm ∈ w.members) (hcur : rm.epoch = w.epoch) (hrem : rm.priv.self ∈ e.removes)
    (hnr : NoReintro (keysOf rm.priv) e newLeaf fresh)
    (h : w.commit sender e newLeaf fresh psk ctx deliverTo = .ok (w', tr)) :
    ∀ st, Key.node st ∈ keysOf rm.priv → st ∉ keyStamps w'.tree :=
  disj_removed (reachable_ginv hr) hok hrm hcur hrem hnr h

/-- **Secrecy against a removed member, for all later epochs.**  `w0` reachable; `rm` a current member of
`w0`; a commit *with a path* removes it (`w0 → w1`, transcript `tr1`); then any number of further commits
(`Later`: any committers, proposals, with or without path, any delivery; transcripts `T`), none of which
brings back a private key that `rm` holds (`NoReintro`).  From its last state — all its private keys, its epoch
secret and init secret — and all these transcripts, `rm` derives

* no path secret and no commit secret of any of these commits (`pathN i (fresh n)`, `n ≥` the epoch of `w0`),
* no path secret inside any update-path node of these transcripts,
* not the epoch secret nor the init secret of any followed party that is past epoch `w0.epoch` in the final
  world — in particular of no current member. -/
theorem removed_member_forward_secrecy {w0 w1 w2 : GroupWorld} {tr1 : Transcript} {T : List Transcript}
    {sender : Nat} {e : Edits} {nl : Leaf} {fresh : Nat} {psk : Sec} {ctx : Nat} {deliverTo : List Nat}
    {rm : Member} (hr : Reachable w0) (hrm : rm ∈ w0.members) (hcur : rm.epoch = w0.epoch)
    (hrem : rm.priv.self ∈ e.removes) (hok : CommitOk w0 sender e (some nl) fresh)
    (hnr : NoReintro (keysOf rm.priv) e (some nl) fresh)
    (hc : w0.commit sender e (some nl) fresh psk ctx deliverTo = .ok (w1, tr1))
    (hl : Later (keysOf rm.priv) w1 T w2) :
    (∀ n i, w0.epoch ≤ n → ¬ Derivable (keysOf rm.priv) [rm.secret, rm.initSecret]
        (sealsOfAll (T ++ [tr1])) (gensOfAll (T ++ [tr1])) (.sec (pathN i (.fresh n)))) ∧
    (∀ tr ∈ T ++ [tr1], ∀ ps ∈ tr.pathSeals, ¬ Derivable (keysOf rm.priv) [rm.secret, rm.initSecret]
        (sealsOfAll (T ++ [tr1])) (gensOfAll (T ++ [tr1])) (.sec ps.secret)) ∧
    (∀ m ∈ w2.members, w0.epoch < m.epoch →
      ¬ Derivable (keysOf rm.priv) [rm.secret, rm.initSecret]
        (sealsOfAll (T ++ [tr1])) (gensOfAll (T ++ [tr1])) (.sec m.secret) ∧
      ¬ Derivable (keysOf rm.priv) [rm.secret, rm.initSecret]
        (sealsOfAll (T ++ [tr1])) (gensOfAll (T ++ [tr1])) (.sec m.initSecret)) := by
  have hi := reachable_ginv hr
  have hd := disj_removed hi hok hrm hcur hrem hnr hc
  have h0 := reachable_sinv hr rm hrm
  exact shut_conclusions (shut_later (shut_first hi hok hnr hc hd) hl) (by
    intro s hs'
    simp only [List.mem_cons, List.mem_nil_iff, or_false] at hs'
    rcases hs' with rfl | rfl <;> exact h0)

/-- **… also when the removed member had missed commits.**  The same statement for *any* followed party `rm`
(in whatever epoch: it may have missed any number of commits before it is removed), in histories with global
freshness of new keys (`ReachableF`: every commit satisfies `FreshAll` — a key introduced by a commit is none
of the keys that any followed party, current or ghost, holds).  The reason: in such histories every stamp a
party holds occurs in the current tree at most on the party's own path (`OnPath`), so blanking its leaf and
direct path takes all of them out. -/
theorem removed_ghost_forward_secrecy {w0 w1 w2 : GroupWorld} {tr1 : Transcript} {T : List Transcript}
    {sender : Nat} {e : Edits} {nl : Leaf} {fresh : Nat} {psk : Sec} {ctx : Nat} {deliverTo : List Nat}
    {rm : Member} (hr : ReachableF w0) (hrm : rm ∈ w0.members)
    (hrem : rm.priv.self ∈ e.removes) (hok : CommitOk w0 sender e (some nl) fresh)
    (hnr : NoReintro (keysOf rm.priv) e (some nl) fresh)
    (hc : w0.commit sender e (some nl) fresh psk ctx deliverTo = .ok (w1, tr1))
    (hl : Later (keysOf rm.priv) w1 T w2) :
    (∀ n i, w0.epoch ≤ n → ¬ Derivable (keysOf rm.priv) [rm.secret, rm.initSecret]
        (sealsOfAll (T ++ [tr1])) (gensOfAll (T ++ [tr1])) (.sec (pathN i (.fresh n)))) ∧
    (∀ tr ∈ T ++ [tr1], ∀ ps ∈ tr.pathSeals, ¬ Derivable (keysOf rm.priv) [rm.secret, rm.initSecret]
        (sealsOfAll (T ++ [tr1])) (gensOfAll (T ++ [tr1])) (.sec ps.secret)) ∧
    (∀ m ∈ w2.members, w0.epoch < m.epoch →
      ¬ Derivable (keysOf rm.priv) [rm.secret, rm.initSecret]
        (sealsOfAll (T ++ [tr1])) (gensOfAll (T ++ [tr1])) (.sec m.secret) ∧
      ¬ Derivable (keysOf rm.priv) [rm.secret, rm.initSecret]
        (sealsOfAll (T ++ [tr1])) (gensOfAll (T ++ [tr1])) (.sec m.initSecret)) := by
  have hi := reachable_ginv hr.reachable
  have hd := disj_removed_any hi (reachableF_onPath hr rm hrm) hrem hnr hc
  have h0 := reachable_sinv hr.reachable rm hrm
  exact shut_conclusions (shut_later (shut_first hi hok hnr hc hd) hl) (by
    intro s hs'
    simp only [List.mem_cons, List.mem_nil_iff, or_false] at hs'
    rcases hs' with rfl | rfl <;> exact h0)

/-- **Any outside party, for all later epochs.**  The same for an arbitrary party `(K, S)`: after a commit with
a path (`w0 → w1`) it holds no key of the tree of `w1`, none of the commits from `w0` on brings in a key of `K`,
and its secrets `S` do not depend on the random values drawn from epoch `w0.epoch` on.  Then it derives no
secret that does — no path secret, no commit secret, no epoch / init secret of an epoch after `w0.epoch`. -/
theorem outsider_forward_secrecy {w0 w1 w2 : GroupWorld} {tr1 : Transcript} {T : List Transcript}
    {sender : Nat} {e : Edits} {nl : Leaf} {fresh : Nat} {psk : Sec} {ctx : Nat} {deliverTo : List Nat}
    {K : List Key} {S : List Sec} (hr : Reachable w0) (hok : CommitOk w0 sender e (some nl) fresh)
    (hnr : NoReintro K e (some nl) fresh)
    (hc : w0.commit sender e (some nl) fresh psk ctx deliverTo = .ok (w1, tr1))
    (hd : ∀ st, Key.node st ∈ K → st ∉ keyStamps w1.tree)
    (hS : ∀ s ∈ S, hidden (freshFrom w0.epoch) s = false)
    (hl : Later K w1 T w2) :
    (∀ s, hidden (freshFrom w0.epoch) s = true →
      ¬ Derivable K S (sealsOfAll (T ++ [tr1])) (gensOfAll (T ++ [tr1])) (.sec s)) ∧
    (∀ m ∈ w2.members, w0.epoch < m.epoch → hidden (freshFrom w0.epoch) m.secret = true ∧
      hidden (freshFrom w0.epoch) m.initSecret = true) ∧
    (∀ st, Key.node st ∈ K → st ∉ keyStamps w2.tree) := by
  have hs := shut_later (shut_first (reachable_ginv hr) hok hnr hc hd) hl
  exact ⟨closed_secrecy hs.closed hS, fun m hm hlt => ⟨hs.hinv m hm hlt, hs.hinv m hm hlt⟩, hs.disj⟩

/-- the same for the removing commit alone: no path secret of that commit, not its commit secret, not the
new epoch secret -/
theorem removed_member_cannot_derive {w w' : GroupWorld} {tr : Transcript}
    {sender : Nat} {e : Edits} {nl : Leaf} {fresh : Nat} {psk : Sec} {ctx : Nat} {deliverTo : List Nat}
    {rm : Member} (hr : Reachable w) (hrm : rm ∈ w.members) (hcur : rm.epoch = w.epoch)
    (hrem : rm.priv.self ∈ e.removes) (hok : CommitOk w sender e (some nl) fresh)
    (hnr : NoReintro (keysOf rm.priv) e (some nl) fresh)
    (hc : w.commit sender e (some nl) fresh psk ctx deliverTo = .ok (w', tr)) :
    (∀ ps ∈ tr.pathSeals, ¬ Derivable (keysOf rm.priv) [rm.secret, rm.initSecret]
        (sealsOfAll [tr]) (gensOfAll [tr]) (.sec ps.secret)) ∧
    (∀ i, ¬ Derivable (keysOf rm.priv) [rm.secret, rm.initSecret]
        (sealsOfAll [tr]) (gensOfAll [tr]) (.sec (pathN i (.fresh w.epoch)))) ∧
    (∀ m ∈ w'.members, m.epoch = w'.epoch →
      ¬ Derivable (keysOf rm.priv) [rm.secret, rm.initSecret] (sealsOfAll [tr]) (gensOfAll [tr]) (.sec m.secret)) := by
  obtain ⟨h1, h2, h3⟩ := removed_member_forward_secrecy hr hrm hcur hrem hok hnr hc (.refl w')
  have he := (commit_member_cases (reachable_ginv hr) hc).1
  exact ⟨fun ps hps => h2 tr (by simp) ps hps, fun i => h1 _ i (Nat.le_refl _),
    fun m hm hm' => (h3 m hm (by omega)).1⟩

/-! ### the Welcome (C07) -/

/-- A party that holds none of the init keys the Welcome is sealed to learns nothing hidden from the Welcome
alone: if the joiner secret (= the new epoch secret) depends on an `A`-atom that none of its own secrets
depends on, it cannot derive it. -/
theorem welcome_outsider (A : Sec → Bool) {K : List Key} {S : List Sec} {tr : Transcript}
    (hK : ∀ ws ∈ tr.welcome, Key.init ws.initKey ∉ K) (hS : ∀ s ∈ S, hidden A s = false) :
    ∀ s, hidden A s = true →
      ¬ Derivable K S (sealsOfAll [{ pathSeals := [], welcome := tr.welcome }]) [] (.sec s) := by
  intro s hs hd
  have := derivable_bound A hS (seals := sealsOfAll [{ pathSeals := [], welcome := tr.welcome }]) (gens := [])
    (by
      intro k s' hm hk
      have hm' : (k, s') ∈ Transcript.seals { pathSeals := [], welcome := tr.welcome } := by
        simpa [sealsOfAll] using hm
      rcases mem_transcript_seals hm' with ⟨ps, hps, _⟩ | ⟨ws, hws, rfl, _⟩
      · cases hps
      · exact absurd hk (hK ws hws))
    (by intro s' k hm; cases hm) hd
  simp only at this
  rw [hs] at this; cases this

/-- **The Welcome alone.**  Every epoch secret of a reachable group depends on the creator's initial randomness
(`genesis`, through the chain of init secrets).  A party that holds none of the init keys a Welcome is sealed
to, and whose own secrets do not depend on `genesis` (it never was in the group), cannot derive the joiner
secret (= the new epoch secret) from the Welcome of any commit — with or without a path. -/
theorem welcome_alone {w w' : GroupWorld} {tr : Transcript} {sender : Nat} {e : Edits}
    {newLeaf : Option Leaf} {fresh : Nat} {psk : Sec} {ctx : Nat} {deliverTo : List Nat}
    (hr : Reachable w) (h : w.commit sender e newLeaf fresh psk ctx deliverTo = .ok (w', tr))
    {K : List Key} {S : List Sec} (hK : ∀ L ∈ e.adds, Key.init L.hpke ∉ K)
    (hS : ∀ s ∈ S, hidden isGenesis s = false) :
    ∀ ws ∈ tr.welcome,
      ¬ Derivable K S (sealsOfAll [{ pathSeals := [], welcome := tr.welcome }]) [] (.sec ws.joiner) := by
  intro ws hws
  have hi := reachable_ginv hr
  obtain ⟨he, _, cm', hcm', _, cs, _, _, hall⟩ := commit_member_cases hi h
  have hgen := reachable_geninv hr
  obtain ⟨cm, added, t1, hpre, h'⟩ := commit_inv h
  obtain ⟨hcm1, _, _⟩ := sender?_spec hpre.hsender
  have hjoin : hidden isGenesis ws.joiner = true ∧ ∀ ws' ∈ tr.welcome, ∃ L ∈ e.adds, ws'.initKey = L.hpke := by
    cases newLeaf with
    | some nl =>
      obtain ⟨o, ms, js, hc⟩ := commitPath_inv h'
      rw [hc.welcome] at hws ⊢
      obtain ⟨self, L, hL, rfl⟩ := mem_welcome hws
      refine ⟨by simp only [welcomeFor, hidden, hgen cm hcm1, Bool.true_or], fun ws' hws' => ?_⟩
      obtain ⟨self', L', hL', rfl⟩ := mem_welcome hws'
      exact ⟨L', hL', rfl⟩
    | none =>
      obtain ⟨js, hc⟩ := commitNoPath_inv h'
      rw [hc.welcome] at hws ⊢
      obtain ⟨self, L, hL, rfl⟩ := mem_welcome hws
      refine ⟨by simp only [welcomeFor, hidden, hgen cm hcm1, Bool.true_or], fun ws' hws' => ?_⟩
      obtain ⟨self', L', hL', rfl⟩ := mem_welcome hws'
      exact ⟨L', hL', rfl⟩
  refine welcome_outsider isGenesis ?_ hS _ hjoin.1
  intro ws' hws' hk
  obtain ⟨L, hL, heq⟩ := hjoin.2 ws' hws'
  exact hK L hL (heq ▸ hk)

/-- the Welcome seals of a commit go to the init keys of the key packages it adds, and carry the committer's
new epoch secret -/
theorem welcome_contents {w w' : GroupWorld} {tr : Transcript} {sender : Nat} {e : Edits}
    {newLeaf : Option Leaf} {fresh : Nat} {psk : Sec} {ctx : Nat} {deliverTo : List Nat}
    (hr : Reachable w) (h : w.commit sender e newLeaf fresh psk ctx deliverTo = .ok (w', tr)) :
    ∀ ws ∈ tr.welcome, (∃ L ∈ e.adds, ws.initKey = L.hpke) ∧
      ∀ m ∈ w'.members, m.epoch = w'.epoch → m.secret = ws.joiner := by
  have hi := reachable_ginv hr
  obtain ⟨he, _, cm', _, _, cs, _, _, hall⟩ := commit_member_cases hi h
  obtain ⟨cm, added, t1, hpre, h'⟩ := commit_inv h
  intro ws hws
  cases newLeaf with
  | some nl =>
    obtain ⟨o, ms, js, hc⟩ := commitPath_inv h'
    rw [hc.welcome] at hws
    obtain ⟨self, L, hL, rfl⟩ := mem_welcome hws
    refine ⟨⟨L, hL, rfl⟩, fun m hm hme => ?_⟩
    rcases path_member_cases hi hpre hc hm with ⟨_, h1⟩ | ⟨_, h1⟩
    · omega
    · exact h1
  | none =>
    obtain ⟨js, hc⟩ := commitNoPath_inv h'
    rw [hc.welcome] at hws
    obtain ⟨self, L, hL, rfl⟩ := mem_welcome hws
    refine ⟨⟨L, hL, rfl⟩, fun m hm hme => ?_⟩
    rcases nopath_member_cases hi hpre hc hm with ⟨_, h1⟩ | ⟨_, h1⟩
    · omega
    · exact h1

/-! ### the executable closure is sound -/

/-- everything the saturation `saturate` finds is derivable -/
theorem closure_sound (K : List Key) (S : List Sec) (seals : List (Key × Sec)) (gens : List (Sec × Key))
    (U : List Sec) (n : Nat) (f : Fact) (h : f ∈ saturate K S seals gens U n) : Derivable K S seals gens f :=
  saturate_sound K S seals gens U n f h

/-! ### Non-vacuity: the concrete history of `Proofs/GroupExample.lean`

create; 0 adds 1, 2 (path); 1 adds 3 (no path, PSK); 2 commits a path; **0 removes 1 with a path** (epoch 3 → 4,
transcript `tr4`); 2 commits a path (epoch 4 → 5, `tr5`).  `m1` is member 1 as it is in epoch 3. -/

open MlsVerif.Group.Ex

-- member 1's last state: leaf key, the keys of node 1 and of the root; it is a current member of epoch 3
example : keysOf m1.priv = [.node 101, .node 1000, .node 2001] ∧ m1 ∈ w3.members ∧ m1.epoch = w3.epoch ∧
    m1.secret = E w3 := by decide +kernel

-- the hypotheses of the theorem hold on the example
example : m1.priv.self ∈ e4.removes ∧ NoReintro (keysOf m1.priv) e4 (some nl4) 3000 ∧
    NoReintro (keysOf m1.priv) e3 (some nl5) 4000 := by decide +kernel

theorem later45 : Later (keysOf m1.priv) w4 [tr5] w5 :=
  .step (.refl w4) ok5 (by decide +kernel) c5

/-- the theorem on the example: member 1 derives neither the epoch secret of epoch 4 nor that of epoch 5,
nor any path secret of the two commits -/
theorem example_secrecy :
    ¬ Derivable (keysOf m1.priv) [m1.secret, m1.initSecret] (sealsOfAll [tr5, tr4]) (gensOfAll [tr5, tr4])
        (.sec (E w4)) ∧
    ¬ Derivable (keysOf m1.priv) [m1.secret, m1.initSecret] (sealsOfAll [tr5, tr4]) (gensOfAll [tr5, tr4])
        (.sec (E w5)) ∧
    ¬ Derivable (keysOf m1.priv) [m1.secret, m1.initSecret] (sealsOfAll [tr5, tr4]) (gensOfAll [tr5, tr4])
        (.sec (.path (.fresh 3))) := by
  have he : w3.epoch = 3 := by decide +kernel
  have hs := shut_later (shut_first (reachable_ginv reach3) ok4 (by decide +kernel) c4
    (disj_removed (reachable_ginv reach3) ok4 (rm := m1) (by decide +kernel) (by decide +kernel)
      (by decide +kernel) (by decide +kernel) c4)) later45
  have hc : Closed 3 (keysOf m1.priv) [tr5, tr4] := he ▸ hs.closed
  have key := closed_secrecy hc (S := [m1.secret, m1.initSecret]) (by decide +kernel)
  exact ⟨key _ (by decide +kernel), key _ (by decide +kernel), key _ (by decide +kernel)⟩

/-- the same through the history theorem: no current member's secret in epoch 5 -/
example : ∀ m ∈ w5.members, w3.epoch < m.epoch →
    ¬ Derivable (keysOf m1.priv) [m1.secret, m1.initSecret] (sealsOfAll ([tr5] ++ [tr4]))
        (gensOfAll ([tr5] ++ [tr4])) (.sec m.secret) :=
  fun m hm hlt => ((removed_member_forward_secrecy reach3 (rm := m1) (by decide +kernel) (by decide +kernel)
    (by decide +kernel) ok4 (by decide +kernel) c4 later45).2.2 m hm hlt).1

/-- the universe of candidate secrets for the saturation: all sub-terms of the last epoch secret and the
chains of the two commits -/
def U : List Sec :=
  subterms (E w5) ++ [.path (.path (.fresh 3)), .path (.path (.fresh 4)), .path (.path (.path (.fresh 4)))]

/-- what the removed member computes from its last state and the two transcripts -/
def sat1 : List Fact :=
  saturate (keysOf m1.priv) [m1.secret] (sealsOfAll [tr5, tr4]) (gensOfAll [tr5, tr4]) U 8

-- visibly: the old epoch secret and its init secret, but neither the new epoch secrets, nor a path secret of
-- the two commits, nor any new key
example : sat1.contains (.sec (E w3)) = true ∧ sat1.contains (.sec (.initOf (E w3))) = true ∧
    sat1.contains (.sec (E w4)) = false ∧ sat1.contains (.sec (E w5)) = false ∧
    sat1.contains (.sec (.fresh 3)) = false ∧ sat1.contains (.sec (.path (.fresh 3))) = false ∧
    sat1.filterMap (fun f => match f with | .key k => some k | _ => none)
      = [.node 101, .node 1000, .node 2001] := by decide +kernel

/-- in contrast member 2, from its state in epoch 3: it holds the key of node 5 (stamp 2000), opens the root
path secret `fresh 3` of the removal commit, derives the new root key 3000 and the epoch secret of epoch 4 -/
def sat2 : List Fact :=
  saturate (keysOf m2.priv) [m2.secret] (sealsOfAll [tr4]) (gensOfAll [tr4]) U 8

example : sat2.contains (.sec (.fresh 3)) = true ∧ sat2.contains (.key (.node 3000)) = true ∧
    sat2.contains (.sec (E w4)) = true := by decide +kernel

theorem member2_derives : Derivable (keysOf m2.priv) [m2.secret] (sealsOfAll [tr4]) (gensOfAll [tr4])
    (.sec (E w4)) :=
  closure_sound _ _ _ _ U 8 _ (by decide +kernel)

/-! ### a removed member that had missed commits

Member 3 missed commit 2 → 3 and is still in epoch 2 (holding only its leaf key) when, in epoch 5, member 0
removes it with a path (`w5 → w6`).  All commits of the history satisfy `FreshAll`. -/

example : (party w5 3).map (fun m => (m.epoch, keysOf m.priv)) = some (2, [.node 103]) ∧ w5.epoch = 5 := by
  decide +kernel

theorem ghost_secrecy : ∀ m ∈ w6.members, w5.epoch < m.epoch →
    ¬ Derivable (keysOf m3.priv) [m3.secret, m3.initSecret] (sealsOfAll ([] ++ [tr6])) (gensOfAll ([] ++ [tr6]))
        (.sec m.secret) :=
  fun m hm hlt => ((removed_ghost_forward_secrecy reachF5 (rm := m3) (by decide +kernel) (by decide +kernel)
    ok6 (by decide +kernel) c6 (.refl w6)).2.2 m hm hlt).1

-- members 0 and 2 are the parties past epoch 5; their secret is the new epoch secret
example : (w6.members.filter (fun m => decide (w5.epoch < m.epoch))).map (fun m => (m.id, m.secret == E w6))
    = [(0, true), (2, true)] := by decide +kernel

/-! ### the Welcome of commit 1 → 2 (member 3 is added without a path, with an external PSK) -/

example : r2.2.welcome = [{ initKey := 103, joiner := E w2, pathSecret := none }] := by decide +kernel

/-- the joiner, holding the init key of its key package, gets the epoch secret out of the Welcome … -/
theorem joiner_derives : Derivable [.init 103] [] (sealsOfAll [{ pathSeals := [], welcome := r2.2.welcome }]) []
    (.sec (E w2)) :=
  closure_sound _ _ _ _ [] 1 _ (by decide +kernel)

/-- … a party with another init key, even one that knows the external PSK, does not -/
example : ¬ Derivable [.init 999] [.psk 7] (sealsOfAll [{ pathSeals := [], welcome := r2.2.welcome }]) []
    (.sec (E w2)) :=
  welcome_alone (.commit (.init (lf 0)) ok1 c1) c2 (by decide +kernel) (by decide +kernel)
    { initKey := 103, joiner := E w2, pathSecret := none } (by decide +kernel)

/-! ### the negative counterpart: a Remove committed *without* a path

`w3 → w4'`: member 0 commits the Remove of member 1 without an update path: the commit secret is `zero`, there
is no PSK, and the new epoch secret is `epoch (initOf E₃) zero zero ctx` — computable from the old epoch secret
alone.  The removed member CAN derive it.  This is why the library forces a path whenever a Remove (or Update,
or External Init) is committed: `path_required` in `Props/C10.lean`. -/

example : E w4' = .epoch (.initOf (E w3)) .zero .zero 14 ∧ tr4'.pathSeals = [] := by decide +kernel

theorem removed_member_derives_without_path :
    Derivable (keysOf m1.priv) [m1.secret] (sealsOfAll [tr4']) (gensOfAll [tr4']) (.sec (E w4')) :=
  closure_sound _ _ _ _ (subterms (E w4')) 3 _ (by decide +kernel)

-- … while with the path (same proposals, same committer) it cannot: `example_secrecy`.

end MlsVerif.Props.C02Group
