import MlsVerif.Proofs.GroupSecrecy
import MlsVerif.Proofs.GroupGhost
import MlsVerif.Proofs.GroupClosure
import MlsVerif.Proofs.GroupExample
import MlsVerif.Proofs.GroupInitChain
/-!
# C02 (composed) — secrecy against removed members and outsiders, over whole histories

Adversary model: `Model/GroupAdversary.lean`.  `Derivable K S seals gens f`: a party that starts with the
private keys `K` and the secrets `S` and sees the ciphertexts `seals` — pairs (recipient key, plaintext
secret) — computes `f`, by the rules: `s ↦ path s`, `s ↦ initOf s`; a ciphertext `(k, s)` with `k` known gives
`s`; `(s, k) ∈ gens` (the node key pair generated from path secret `s`) and `s` known give the private key `k`;
`epoch i c p ctx` only from all of `i`, `c`, `p`; `zero` is public; nothing inverts `path` / `epoch` / `initOf`.

The public transcript of a commit (`Transcript`, produced by `GroupWorld.commit`): per unfiltered direct-path
node of the committer the path secret, the announced key generated from it, and the recipients — exactly
`EncapOut.seals`, each with the key stamp stored at the recipient node in the *new* tree; per joiner the group
secrets (joiner secret, path secret of the common ancestor) sealed to the init key of its key package.

`hidden (freshFrom N) s`: the secret `s` depends on a random path secret drawn by a commit at epoch `N` or
later.  Every path secret and commit secret of these commits is hidden, and — if the commit that ends epoch
`N` has a path — so is every epoch / init secret of the epochs after `N` (`HInv`).

What the key stamps mean: holding a stamp = holding the private key.  Stamps that are meant to be new are
assumed new (`CommitOk` for the tree, `NoReintro K` for the party under consideration) — "fresh keys are
fresh".  `NoReintro` also expresses "the removed member is not re-added with keys it already holds".

External commits (`GroupWorld.externalCommit`).  Histories (`Reachable`, `Later`, `ReachableF`) may contain them.
The `ExternalInit` shows in the transcript as the KEM output `(Key.ext e, Sec.ext n)` — towards the external key
of the epoch whose epoch secret is `e`, carrying the KEM shared secret `ext n`, the init secret of the new epoch —
and the key generation `(e, Key.ext e)`: whoever knows the epoch secret derives the external private key.  So
exactly the joiner (who chose the KEM randomness) and the parties that know the old epoch secret know the new init
secret; it gives no forward secrecy — `Closed` treats every external key as known — and the new epoch secret is
protected against former members by the commit secret of the (mandatory) update path, against parties that never
were in the group by the init-secret chain (`init_chain_secrecy`).  The chain is CUT by an external commit: the
joiner learns nothing about the epoch secrets up to the epoch it ends (`external_committer_learns_nothing_earlier`).

The removed member is given its *last* state (all private keys in its slots, its epoch and init secret) and
the transcripts of the removing commit and of all later ones.  Path secrets it decrypted earlier are not part
of a member's state (they are deleted after processing); transcripts of earlier commits are not given to it.
-/
namespace MlsVerif.Props.C02Group
open MlsVerif.Tree MlsVerif.Group

/-! ### the adversary's knowledge is bounded -/

/-- **Bound.**  `A` selects random atoms.  If the party's initial secrets do not depend on an `A`-atom, every
ciphertext addressed to one of its keys carries a secret that does not, and every key pair generated from
such a secret is its own, then it derives no key outside `K` and no secret that depends on an `A`-atom. -/
theorem adversary_bound (A : Sec → Bool) {K : List Key} {S : List Sec} {seals : List (Key × Sec)}
    {gens : List (Sec × Key)} (hS : ∀ s ∈ S, hidden A s = false)
    (hseal : ∀ k s, (k, s) ∈ seals → k ∈ K → hidden A s = false)
    (hgen : ∀ s k, (s, k) ∈ gens → hidden A s = false → k ∈ K) :
    (∀ k, Derivable K S seals gens (.key k) → k ∈ K) ∧
    (∀ s, Derivable K S seals gens (.sec s) → hidden A s = false) :=
  ⟨fun _ h => derivable_bound A hS hseal hgen h, fun _ h => derivable_bound A hS hseal hgen h⟩

/-- **Path secrets go only to entitled keys** (composed form of `seals_exact` / `seal_recipients`): every
ciphertext of a commit is addressed to the key stored at a node of the *new* tree, or to the init key of a key
package added by this very commit. -/
theorem ciphertext_recipients {w w' : GroupWorld} {tr : Transcript} {sender : Nat} {e : Edits}
    {newLeaf : Option Leaf} {fresh : Nat} {psk : Sec} {ctx : Nat} {deliverTo : List Nat}
    (h : w.commit sender e newLeaf fresh psk ctx deliverTo = .ok (w', tr)) :
    ∀ k s, (k, s) ∈ tr.seals →
      (∃ st, k = .node st ∧ st ∈ keyStamps w'.tree) ∨ (∃ L ∈ e.adds, k = .init L.hpke) :=
  seals_recipients h

/-- **Outsiders.**  A party none of whose keys is a recipient of any ciphertext of the transcripts `T`, all of
which stem from epoch `N` or later (`Closed`), and whose own secrets are older, derives no secret that depends
on a random value of epoch `N` or later. -/
theorem outsider_secrecy {N : Nat} {K : List Key} {T : List Transcript} {S : List Sec}
    (hc : Closed N K T) (hS : ∀ s ∈ S, hidden (freshFrom N) s = false) :
    ∀ s, hidden (freshFrom N) s = true → ¬ Derivable K S (sealsOfAll T) (gensOfAll T) (.sec s) :=
  closed_secrecy hc hS

/-! ### a removed member -/

/-- A member removed by a commit holds, afterwards, no key of the new tree — also when its leaf is filled
again by an Add of the same commit.  (`removed_cannot_open_seals` of `Props/C02`, for the group model.) -/
theorem removed_holds_no_key_of_new_tree {w w' : GroupWorld} {tr : Transcript} {sender : Nat} {e : Edits}
    {newLeaf : Option Leaf} {fresh : Nat} {psk : Sec} {ctx : Nat} {deliverTo : List Nat}
    (hr : Reachable w) (hok : CommitOk w sender e newLeaf fresh) {rm : Member}
    (hrm : rm ∈ w.members) (hcur : rm.epoch = w.epoch) (hrem : rm.priv.self ∈ e.removes)
    (hnr : NoReintro (keysOf rm.priv) e newLeaf fresh)
    (h : w.commit sender e newLeaf fresh psk ctx deliverTo = .ok (w', tr)) :
    ∀ st, Key.node st ∈ keysOf rm.priv → st ∉ keyStamps w'.tree :=
  disj_removed (reachable_ginv hr) hok hrm hcur hrem hnr h

/-- **Secrecy against a removed member, for all later epochs.**  `w0` reachable; `rm` a current member of
`w0`; a commit *with a path* removes it (`w0 → w1`, transcript `tr1`); then any number of further commits
(`Later`: any committers, proposals, with or without path, any delivery; transcripts `T`), none of which
brings back a private key that `rm` holds (`NoReintro`).  From its last state — all its private keys, its epoch
secret and init secret — and all these transcripts, `rm` derives

* no path secret and no commit secret of any of these commits (`pathN i (fresh n)`, `n ≥` the epoch of `w0`),
* no path secret inside any update-path node of these transcripts,
* not the epoch secret nor the init secret of any followed party that is past epoch `w0.epoch` in the final
  world — in particular of no current member. -/
theorem removed_member_forward_secrecy {w0 w1 w2 : GroupWorld} {tr1 : Transcript} {T : List Transcript}
    {sender : Nat} {e : Edits} {nl : Leaf} {fresh : Nat} {psk : Sec} {ctx : Nat} {deliverTo : List Nat}
    {rm : Member} (hr : Reachable w0) (hrm : rm ∈ w0.members) (hcur : rm.epoch = w0.epoch)
    (hrem : rm.priv.self ∈ e.removes) (hok : CommitOk w0 sender e (some nl) fresh)
    (hnr : NoReintro (keysOf rm.priv) e (some nl) fresh)
    (hc : w0.commit sender e (some nl) fresh psk ctx deliverTo = .ok (w1, tr1))
    (hl : Later (keysOf rm.priv) w1 T w2) :
    (∀ n i, w0.epoch ≤ n → ¬ Derivable (keysOf rm.priv) [rm.secret, rm.initSecret]
        (sealsOfAll (T ++ [tr1])) (gensOfAll (T ++ [tr1])) (.sec (pathN i (.fresh n)))) ∧
    (∀ tr ∈ T ++ [tr1], ∀ ps ∈ tr.pathSeals, ¬ Derivable (keysOf rm.priv) [rm.secret, rm.initSecret]
        (sealsOfAll (T ++ [tr1])) (gensOfAll (T ++ [tr1])) (.sec ps.secret)) ∧
    (∀ m ∈ w2.members, w0.epoch < m.epoch →
      ¬ Derivable (keysOf rm.priv) [rm.secret, rm.initSecret]
        (sealsOfAll (T ++ [tr1])) (gensOfAll (T ++ [tr1])) (.sec m.secret) ∧
      ¬ Derivable (keysOf rm.priv) [rm.secret, rm.initSecret]
        (sealsOfAll (T ++ [tr1])) (gensOfAll (T ++ [tr1])) (.sec m.initSecret)) := by
  have hi := reachable_ginv hr
  have hd := disj_removed hi hok hrm hcur hrem hnr hc
  have h0 := reachable_sinv hr rm hrm
  exact shut_conclusions (shut_later (shut_first hi hok hnr hc hd) hl) (by
    intro s hs'
    simp only [List.mem_cons, List.mem_nil_iff, or_false] at hs'
    rcases hs' with rfl | rfl <;> exact h0)

/-- **… also when the removed member had missed commits.**  The same statement for *any* followed party `rm`
(in whatever epoch: it may have missed any number of commits before it is removed), in histories with global
freshness of new keys (`ReachableF`: every commit satisfies `FreshAll` — a key introduced by a commit is none
of the keys that any followed party, current or ghost, holds).  The reason: in such histories every stamp a
party holds occurs in the current tree at most on the party's own path (`OnPath`), so blanking its leaf and
direct path takes all of them out. -/
theorem removed_ghost_forward_secrecy {w0 w1 w2 : GroupWorld} {tr1 : Transcript} {T : List Transcript}
    {sender : Nat} {e : Edits} {nl : Leaf} {fresh : Nat} {psk : Sec} {ctx : Nat} {deliverTo : List Nat}
    {rm : Member} (hr : ReachableF w0) (hrm : rm ∈ w0.members)
    (hrem : rm.priv.self ∈ e.removes) (hok : CommitOk w0 sender e (some nl) fresh)
    (hnr : NoReintro (keysOf rm.priv) e (some nl) fresh)
    (hc : w0.commit sender e (some nl) fresh psk ctx deliverTo = .ok (w1, tr1))
    (hl : Later (keysOf rm.priv) w1 T w2) :
    (∀ n i, w0.epoch ≤ n → ¬ Derivable (keysOf rm.priv) [rm.secret, rm.initSecret]
        (sealsOfAll (T ++ [tr1])) (gensOfAll (T ++ [tr1])) (.sec (pathN i (.fresh n)))) ∧
    (∀ tr ∈ T ++ [tr1], ∀ ps ∈ tr.pathSeals, ¬ Derivable (keysOf rm.priv) [rm.secret, rm.initSecret]
        (sealsOfAll (T ++ [tr1])) (gensOfAll (T ++ [tr1])) (.sec ps.secret)) ∧
    (∀ m ∈ w2.members, w0.epoch < m.epoch →
      ¬ Derivable (keysOf rm.priv) [rm.secret, rm.initSecret]
        (sealsOfAll (T ++ [tr1])) (gensOfAll (T ++ [tr1])) (.sec m.secret) ∧
      ¬ Derivable (keysOf rm.priv) [rm.secret, rm.initSecret]
        (sealsOfAll (T ++ [tr1])) (gensOfAll (T ++ [tr1])) (.sec m.initSecret)) := by
  have hi := reachable_ginv hr.reachable
  have hd := disj_removed_any hi (reachableF_onPath hr rm hrm) hrem hnr hc
  have h0 := reachable_sinv hr.reachable rm hrm
  exact shut_conclusions (shut_later (shut_first hi hok hnr hc hd) hl) (by
    intro s hs'
    simp only [List.mem_cons, List.mem_nil_iff, or_false] at hs'
    rcases hs' with rfl | rfl <;> exact h0)

/-- **Any outside party, for all later epochs.**  The same for an arbitrary party `(K, S)`: after a commit with
a path (`w0 → w1`) it holds no key of the tree of `w1`, none of the commits from `w0` on brings in a key of `K`,
and its secrets `S` do not depend on the random values drawn from epoch `w0.epoch` on.  Then it derives no
secret that does — no path secret, no commit secret, no epoch / init secret of an epoch after `w0.epoch`. -/
theorem outsider_forward_secrecy {w0 w1 w2 : GroupWorld} {tr1 : Transcript} {T : List Transcript}
    {sender : Nat} {e : Edits} {nl : Leaf} {fresh : Nat} {psk : Sec} {ctx : Nat} {deliverTo : List Nat}
    {K : List Key} {S : List Sec} (hr : Reachable w0) (hok : CommitOk w0 sender e (some nl) fresh)
    (hnr : NoReintro K e (some nl) fresh)
    (hc : w0.commit sender e (some nl) fresh psk ctx deliverTo = .ok (w1, tr1))
    (hd : ∀ st, Key.node st ∈ K → st ∉ keyStamps w1.tree)
    (hS : ∀ s ∈ S, hidden (freshFrom w0.epoch) s = false)
    (hl : Later K w1 T w2) :
    (∀ s, hidden (freshFrom w0.epoch) s = true →
      ¬ Derivable K S (sealsOfAll (T ++ [tr1])) (gensOfAll (T ++ [tr1])) (.sec s)) ∧
    (∀ m ∈ w2.members, w0.epoch < m.epoch → hidden (freshFrom w0.epoch) m.secret = true ∧
      hidden (freshFrom w0.epoch) m.initSecret = true) ∧
    (∀ st, Key.node st ∈ K → st ∉ keyStamps w2.tree) := by
  have hs := shut_later (shut_first (reachable_ginv hr) hok hnr hc hd) hl
  exact ⟨closed_secrecy hs.closed hS, fun m hm hlt => ⟨hs.hinv m hm hlt, hs.hinv m hm hlt⟩, hs.disj⟩

/-- the same for the removing commit alone: no path secret of that commit, not its commit secret, not the
new epoch secret -/
theorem removed_member_cannot_derive {w w' : GroupWorld} {tr : Transcript}
    {sender : Nat} {e : Edits} {nl : Leaf} {fresh : Nat} {psk : Sec} {ctx : Nat} {deliverTo : List Nat}
    {rm : Member} (hr : Reachable w) (hrm : rm ∈ w.members) (hcur : rm.epoch = w.epoch)
    (hrem : rm.priv.self ∈ e.removes) (hok : CommitOk w sender e (some nl) fresh)
    (hnr : NoReintro (keysOf rm.priv) e (some nl) fresh)
    (hc : w.commit sender e (some nl) fresh psk ctx deliverTo = .ok (w', tr)) :
    (∀ ps ∈ tr.pathSeals, ¬ Derivable (keysOf rm.priv) [rm.secret, rm.initSecret]
        (sealsOfAll [tr]) (gensOfAll [tr]) (.sec ps.secret)) ∧
    (∀ i, ¬ Derivable (keysOf rm.priv) [rm.secret, rm.initSecret]
        (sealsOfAll [tr]) (gensOfAll [tr]) (.sec (pathN i (.fresh w.epoch)))) ∧
    (∀ m ∈ w'.members, m.epoch = w'.epoch →
      ¬ Derivable (keysOf rm.priv) [rm.secret, rm.initSecret] (sealsOfAll [tr]) (gensOfAll [tr]) (.sec m.secret)) := by
  obtain ⟨h1, h2, h3⟩ := removed_member_forward_secrecy hr hrm hcur hrem hok hnr hc (.refl w')
  have he := (commit_member_cases (reachable_ginv hr) hc).1
  exact ⟨fun ps hps => h2 tr (by simp) ps hps, fun i => h1 _ i (Nat.le_refl _),
    fun m hm hm' => (h3 m hm (by omega)).1⟩

/-! ### the Welcome (C07) -/

/-- A party that holds none of the init keys the Welcome is sealed to learns nothing hidden from the Welcome
alone: if the joiner secret (= the new epoch secret) depends on an `A`-atom that none of its own secrets
depends on, it cannot derive it. -/
theorem welcome_outsider (A : Sec → Bool) {K : List Key} {S : List Sec} {tr : Transcript}
    (hK : ∀ ws ∈ tr.welcome, Key.init ws.initKey ∉ K) (hS : ∀ s ∈ S, hidden A s = false) :
    ∀ s, hidden A s = true →
      ¬ Derivable K S (sealsOfAll [{ pathSeals := [], welcome := tr.welcome }]) [] (.sec s) := by
  intro s hs hd
  have := derivable_bound A hS (seals := sealsOfAll [{ pathSeals := [], welcome := tr.welcome }]) (gens := [])
    (by
      intro k s' hm hk
      have hm' : (k, s') ∈ Transcript.seals { pathSeals := [], welcome := tr.welcome } := by
        simpa [sealsOfAll] using hm
      rcases mem_transcript_seals hm' with ⟨ps, hps, _⟩ | ⟨ws, hws, rfl, _⟩ | ⟨_, he, _⟩
      · cases hps
      · exact absurd hk (hK ws hws)
      · cases he)
    (by intro s' k hm; cases hm) hd
  simp only at this
  rw [hs] at this; cases this

/-- **The Welcome alone.**  Every epoch secret of a reachable group depends on a root of an init-secret chain
(`isRoot`): the creator's initial randomness `genesis` or — since histories may contain external commits, each of
which starts a new chain — the KEM randomness `ext n` of an external committer.  A party that holds none of the
init keys a Welcome is sealed to, and whose own secrets depend on no such root (it never was in the group and
never made an external commit), cannot derive the joiner secret (= the new epoch secret) from the Welcome of any
commit — with or without a path.  (With `isGenesis` in place of `isRoot` the statement is false once external
commits exist: the external committer knows its epoch's init secret without knowing `genesis`.) -/
theorem welcome_alone {w w' : GroupWorld} {tr : Transcript} {sender : Nat} {e : Edits}
    {newLeaf : Option Leaf} {fresh : Nat} {psk : Sec} {ctx : Nat} {deliverTo : List Nat}
    (hr : Reachable w) (h : w.commit sender e newLeaf fresh psk ctx deliverTo = .ok (w', tr))
    {K : List Key} {S : List Sec} (hK : ∀ L ∈ e.adds, Key.init L.hpke ∉ K)
    (hS : ∀ s ∈ S, hidden isRoot s = false) :
    ∀ ws ∈ tr.welcome,
      ¬ Derivable K S (sealsOfAll [{ pathSeals := [], welcome := tr.welcome }]) [] (.sec ws.joiner) := by
  intro ws hws
  have hi := reachable_ginv hr
  obtain ⟨he, _, cm', hcm', _, cs, _, _, hall⟩ := commit_member_cases hi h
  have hgen := reachable_geninv hr
  obtain ⟨cm, added, t1, hpre, h'⟩ := commit_inv h
  obtain ⟨hcm1, _, _⟩ := sender?_spec hpre.hsender
  have hjoin : hidden isRoot ws.joiner = true ∧ ∀ ws' ∈ tr.welcome, ∃ L ∈ e.adds, ws'.initKey = L.hpke := by
    cases newLeaf with
    | some nl =>
      obtain ⟨o, ms, js, hc⟩ := commitPath_inv h'
      rw [hc.welcome] at hws ⊢
      obtain ⟨self, L, hL, rfl⟩ := mem_welcome hws
      refine ⟨by simp only [welcomeFor, hidden, hgen cm hcm1, Bool.true_or], fun ws' hws' => ?_⟩
      obtain ⟨self', L', hL', rfl⟩ := mem_welcome hws'
      exact ⟨L', hL', rfl⟩
    | none =>
      obtain ⟨js, hc⟩ := commitNoPath_inv h'
      rw [hc.welcome] at hws ⊢
      obtain ⟨self, L, hL, rfl⟩ := mem_welcome hws
      refine ⟨by simp only [welcomeFor, hidden, hgen cm hcm1, Bool.true_or], fun ws' hws' => ?_⟩
      obtain ⟨self', L', hL', rfl⟩ := mem_welcome hws'
      exact ⟨L', hL', rfl⟩
  refine welcome_outsider isRoot ?_ hS _ hjoin.1
  intro ws' hws' hk
  obtain ⟨L, hL, heq⟩ := hjoin.2 ws' hws'
  exact hK L hL (heq ▸ hk)

/-- the Welcome seals of a commit go to the init keys of the key packages it adds, and carry the committer's
new epoch secret -/
theorem welcome_contents {w w' : GroupWorld} {tr : Transcript} {sender : Nat} {e : Edits}
    {newLeaf : Option Leaf} {fresh : Nat} {psk : Sec} {ctx : Nat} {deliverTo : List Nat}
    (hr : Reachable w) (h : w.commit sender e newLeaf fresh psk ctx deliverTo = .ok (w', tr)) :
    ∀ ws ∈ tr.welcome, (∃ L ∈ e.adds, ws.initKey = L.hpke) ∧
      ∀ m ∈ w'.members, m.epoch = w'.epoch → m.secret = ws.joiner := by
  have hi := reachable_ginv hr
  obtain ⟨he, _, cm', _, _, cs, _, _, hall⟩ := commit_member_cases hi h
  obtain ⟨cm, added, t1, hpre, h'⟩ := commit_inv h
  intro ws hws
  cases newLeaf with
  | some nl =>
    obtain ⟨o, ms, js, hc⟩ := commitPath_inv h'
    rw [hc.welcome] at hws
    obtain ⟨self, L, hL, rfl⟩ := mem_welcome hws
    refine ⟨⟨L, hL, rfl⟩, fun m hm hme => ?_⟩
    rcases path_member_cases hi hpre hc hm with ⟨_, h1⟩ | ⟨_, h1⟩
    · omega
    · exact h1
  | none =>
    obtain ⟨js, hc⟩ := commitNoPath_inv h'
    rw [hc.welcome] at hws
    obtain ⟨self, L, hL, rfl⟩ := mem_welcome hws
    refine ⟨⟨L, hL, rfl⟩, fun m hm hme => ?_⟩
    rcases nopath_member_cases hi hpre hc hm with ⟨_, h1⟩ | ⟨_, h1⟩
    · omega
    · exact h1

/-! ### external commits -/

/-- **Ciphertexts of an external commit go only to entitled keys**: to the key stored at a node of the *new*
tree (path secrets), or — the KEM output of the `ExternalInit`, carrying the init secret `ext n` of the new epoch —
to the external key of the epoch secret of a current member of the old epoch. -/
theorem ciphertext_recipients_ext {w w' : GroupWorld} {tr : Transcript} {gi : Nat} {remove : Option Nat}
    {L0 nl : Leaf} {fresh : Nat} {psk : Sec} {ctx : Nat} {deliverTo : List Nat}
    (h : w.externalCommit gi remove L0 nl fresh psk ctx deliverTo = .ok (w', tr)) :
    ∀ k s, (k, s) ∈ tr.seals →
      (∃ st, k = .node st ∧ st ∈ keyStamps w'.tree) ∨
      (∃ gm ∈ w.members, gm.epoch = w.epoch ∧ k = .ext gm.secret ∧ s = .ext w.epoch) :=
  seals_recipients_ext h

/-- **Who knows the new init secret (b): every member of the old epoch.**  From its epoch secret alone and the
transcript of the external commit, any current member of the old epoch — also the one whose leaf the commit
removes — derives the KEM shared secret `ext n`.  (The other one who knows it is the joiner, who chose it.) -/
theorem external_init_known_to_old_members {w w' : GroupWorld} {tr : Transcript} {gi : Nat}
    {remove : Option Nat} {L0 nl : Leaf} {fresh : Nat} {psk : Sec} {ctx : Nat} {deliverTo : List Nat}
    (hr : Reachable w) (h : w.externalCommit gi remove L0 nl fresh psk ctx deliverTo = .ok (w', tr)) :
    ∀ m ∈ w.members, m.epoch = w.epoch →
      Derivable [] [m.secret] tr.seals tr.gens (.sec (.ext w.epoch)) := by
  intro m hm hcur
  obtain ⟨gm, hgm, hgme, hx⟩ := ext_init_seal h
  have hs : m.secret = gm.secret := (reachable_ginv hr).agree m hm gm hgm (by rw [hcur, hgme])
  have hxs : (Key.ext m.secret, Sec.ext w.epoch) ∈ tr.seals := by
    unfold Transcript.seals; rw [hx, hs]; simp
  have hxg : (m.secret, Key.ext m.secret) ∈ tr.gens := by
    unfold Transcript.gens; rw [hx, hs]; simp
  exact .opens hxs (.gen hxg (.sec0 (by simp)))

/-- The party whose leaf an external commit removes holds, with its old state, no key of the new tree — also
in the re-sync case, where the new leaf of the SAME party is put on the very position the Remove blanked. -/
theorem removed_by_external_commit_holds_no_key {w w' : GroupWorld} {tr : Transcript} {gi : Nat}
    {remove : Option Nat} {L0 nl : Leaf} {fresh : Nat} {psk : Sec} {ctx : Nat} {deliverTo : List Nat}
    (hr : Reachable w) (hok : ExtOk w remove L0 nl fresh) {rm : Member}
    (hrm : rm ∈ w.members) (hcur : rm.epoch = w.epoch) (hrem : remove = some rm.priv.self)
    (hnr : NoReintroExt (keysOf rm.priv) L0 nl fresh)
    (h : w.externalCommit gi remove L0 nl fresh psk ctx deliverTo = .ok (w', tr)) :
    ∀ st, Key.node st ∈ keysOf rm.priv → st ∉ keyStamps w'.tree :=
  disj_removed_ext (reachable_ginv hr) hok hrm hcur hrem hnr h

/-- **Re-sync: the old state gives nothing, for all later epochs.**  `w0` reachable; `rm` a current member of
`w0`; an external commit removes its leaf (`w0 → w1`, transcript `tr1`) — in a re-sync the external committer is
the same party with a new leaf node, but "removed" here is about the OLD STATE: the private keys in `rm`'s slots,
its epoch secret and init secret.  Then any number of further commits and external commits (`Later`), none of
which brings back a private key of the old state (`NoReintroExt` / `NoReintro`: the new leaf keys are new).  From
the old state and all these transcripts one derives

* no path secret and no commit secret of any of these commits,
* no path secret inside any update-path node of these transcripts,
* not the epoch secret nor the init secret of any followed party that is past epoch `w0.epoch` in the final
  world — in particular not those of the re-synced member itself.

(The old state DOES give the KEM shared secret `ext n`, `external_init_known_to_old_members`: what keeps it out
is the commit secret of the external commit's update path.) -/
theorem resync_old_state_forward_secrecy {w0 w1 w2 : GroupWorld} {tr1 : Transcript} {T : List Transcript}
    {gi : Nat} {remove : Option Nat} {L0 nl : Leaf} {fresh : Nat} {psk : Sec} {ctx : Nat}
    {deliverTo : List Nat} {rm : Member} (hr : Reachable w0) (hrm : rm ∈ w0.members)
    (hcur : rm.epoch = w0.epoch) (hrem : remove = some rm.priv.self) (hok : ExtOk w0 remove L0 nl fresh)
    (hnr : NoReintroExt (keysOf rm.priv) L0 nl fresh)
    (hc : w0.externalCommit gi remove L0 nl fresh psk ctx deliverTo = .ok (w1, tr1))
    (hl : Later (keysOf rm.priv) w1 T w2) :
    (∀ n i, w0.epoch ≤ n → ¬ Derivable (keysOf rm.priv) [rm.secret, rm.initSecret]
        (sealsOfAll (T ++ [tr1])) (gensOfAll (T ++ [tr1])) (.sec (pathN i (.fresh n)))) ∧
    (∀ tr ∈ T ++ [tr1], ∀ ps ∈ tr.pathSeals, ¬ Derivable (keysOf rm.priv) [rm.secret, rm.initSecret]
        (sealsOfAll (T ++ [tr1])) (gensOfAll (T ++ [tr1])) (.sec ps.secret)) ∧
    (∀ m ∈ w2.members, w0.epoch < m.epoch →
      ¬ Derivable (keysOf rm.priv) [rm.secret, rm.initSecret]
        (sealsOfAll (T ++ [tr1])) (gensOfAll (T ++ [tr1])) (.sec m.secret) ∧
      ¬ Derivable (keysOf rm.priv) [rm.secret, rm.initSecret]
        (sealsOfAll (T ++ [tr1])) (gensOfAll (T ++ [tr1])) (.sec m.initSecret)) := by
  have hi := reachable_ginv hr
  have hd := disj_removed_ext hi hok hrm hcur hrem hnr hc
  have h0 := reachable_sinv hr rm hrm
  exact shut_conclusions (shut_later (shut_first_ext hi hok hnr hc hd) hl) (by
    intro s hs'
    simp only [List.mem_cons, List.mem_nil_iff, or_false] at hs'
    rcases hs' with rfl | rfl <;> exact h0)

/-- … also when the party at the removed leaf had missed commits (its old state is that of an earlier epoch), in
histories with global freshness of new keys (`ReachableF`, which may contain external commits). -/
theorem resync_old_ghost_forward_secrecy {w0 w1 w2 : GroupWorld} {tr1 : Transcript} {T : List Transcript}
    {gi : Nat} {remove : Option Nat} {L0 nl : Leaf} {fresh : Nat} {psk : Sec} {ctx : Nat}
    {deliverTo : List Nat} {rm : Member} (hr : ReachableF w0) (hrm : rm ∈ w0.members)
    (hrem : remove = some rm.priv.self) (hok : ExtOk w0 remove L0 nl fresh)
    (hnr : NoReintroExt (keysOf rm.priv) L0 nl fresh)
    (hc : w0.externalCommit gi remove L0 nl fresh psk ctx deliverTo = .ok (w1, tr1))
    (hl : Later (keysOf rm.priv) w1 T w2) :
    (∀ n i, w0.epoch ≤ n → ¬ Derivable (keysOf rm.priv) [rm.secret, rm.initSecret]
        (sealsOfAll (T ++ [tr1])) (gensOfAll (T ++ [tr1])) (.sec (pathN i (.fresh n)))) ∧
    (∀ tr ∈ T ++ [tr1], ∀ ps ∈ tr.pathSeals, ¬ Derivable (keysOf rm.priv) [rm.secret, rm.initSecret]
        (sealsOfAll (T ++ [tr1])) (gensOfAll (T ++ [tr1])) (.sec ps.secret)) ∧
    (∀ m ∈ w2.members, w0.epoch < m.epoch →
      ¬ Derivable (keysOf rm.priv) [rm.secret, rm.initSecret]
        (sealsOfAll (T ++ [tr1])) (gensOfAll (T ++ [tr1])) (.sec m.secret) ∧
      ¬ Derivable (keysOf rm.priv) [rm.secret, rm.initSecret]
        (sealsOfAll (T ++ [tr1])) (gensOfAll (T ++ [tr1])) (.sec m.initSecret)) := by
  have hi := reachable_ginv hr.reachable
  have hd := disj_removed_any_ext hi hok (reachableF_onPath hr rm hrm) hrem hnr hc
  have h0 := reachable_sinv hr.reachable rm hrm
  exact shut_conclusions (shut_later (shut_first_ext hi hok hnr hc hd) hl) (by
    intro s hs'
    simp only [List.mem_cons, List.mem_nil_iff, or_false] at hs'
    rcases hs' with rfl | rfl <;> exact h0)

/-- **Any outside party, from an external commit on.**  An arbitrary party `(K, S)` — e.g. a former member, or
somebody who holds the GroupInfo but is NOT the external committer: after the external commit `w0 → w1` it holds
no key of the tree of `w1`, none of the commits from `w0` on brings in a key of `K`, and its secrets `S` do not
depend on the random values drawn from epoch `w0.epoch` on (it may know the old epoch secret, hence the KEM shared
secret).  Then it derives no path secret, no commit secret, no epoch / init secret of an epoch after
`w0.epoch`. -/
theorem outsider_forward_secrecy_ext {w0 w1 w2 : GroupWorld} {tr1 : Transcript} {T : List Transcript}
    {gi : Nat} {remove : Option Nat} {L0 nl : Leaf} {fresh : Nat} {psk : Sec} {ctx : Nat}
    {deliverTo : List Nat} {K : List Key} {S : List Sec} (hr : Reachable w0)
    (hok : ExtOk w0 remove L0 nl fresh) (hnr : NoReintroExt K L0 nl fresh)
    (hc : w0.externalCommit gi remove L0 nl fresh psk ctx deliverTo = .ok (w1, tr1))
    (hd : ∀ st, Key.node st ∈ K → st ∉ keyStamps w1.tree)
    (hS : ∀ s ∈ S, hidden (freshFrom w0.epoch) s = false)
    (hl : Later K w1 T w2) :
    (∀ s, hidden (freshFrom w0.epoch) s = true →
      ¬ Derivable K S (sealsOfAll (T ++ [tr1])) (gensOfAll (T ++ [tr1])) (.sec s)) ∧
    (∀ m ∈ w2.members, w0.epoch < m.epoch → hidden (freshFrom w0.epoch) m.secret = true ∧
      hidden (freshFrom w0.epoch) m.initSecret = true) ∧
    (∀ st, Key.node st ∈ K → st ∉ keyStamps w2.tree) := by
  have hs := shut_later (shut_first_ext (reachable_ginv hr) hok hnr hc hd) hl
  exact ⟨closed_secrecy hs.closed hS, fun m hm hlt => ⟨hs.hinv m hm hlt, hs.hinv m hm hlt⟩, hs.disj⟩

/-- the same for the external commit alone: the party at the removed leaf derives, from its old state and the
transcript, no path secret of the commit, not its commit secret, not the new epoch secret -/
theorem removed_by_external_commit_cannot_derive {w w' : GroupWorld} {tr : Transcript} {gi : Nat}
    {remove : Option Nat} {L0 nl : Leaf} {fresh : Nat} {psk : Sec} {ctx : Nat} {deliverTo : List Nat}
    {rm : Member} (hr : Reachable w) (hrm : rm ∈ w.members) (hcur : rm.epoch = w.epoch)
    (hrem : remove = some rm.priv.self) (hok : ExtOk w remove L0 nl fresh)
    (hnr : NoReintroExt (keysOf rm.priv) L0 nl fresh)
    (hc : w.externalCommit gi remove L0 nl fresh psk ctx deliverTo = .ok (w', tr)) :
    (∀ ps ∈ tr.pathSeals, ¬ Derivable (keysOf rm.priv) [rm.secret, rm.initSecret]
        (sealsOfAll [tr]) (gensOfAll [tr]) (.sec ps.secret)) ∧
    (∀ i, ¬ Derivable (keysOf rm.priv) [rm.secret, rm.initSecret]
        (sealsOfAll [tr]) (gensOfAll [tr]) (.sec (pathN i (.fresh w.epoch)))) ∧
    (∀ m ∈ w'.members, m.epoch = w'.epoch →
      ¬ Derivable (keysOf rm.priv) [rm.secret, rm.initSecret] (sealsOfAll [tr]) (gensOfAll [tr]) (.sec m.secret)) := by
  obtain ⟨h1, h2, h3⟩ := resync_old_state_forward_secrecy hr hrm hcur hrem hok hnr hc (.refl w')
  have he := (ext_cases (reachable_ginv hr) hc).1
  exact ⟨fun ps hps => h2 tr (by simp) ps hps, fun i => h1 _ i (Nat.le_refl _),
    fun m hm hm' => (h3 m hm (by omega)).1⟩

/-! ### the init-secret chain: parties that never were members, and what an external committer learns -/

/-- **Secrecy through the init-secret chain** (`Proofs/GroupInitChain.lean`).  `History w T`: `w` is reachable and
`T` lists the transcripts of ALL its commits and external commits.  `rootBefore N` selects the roots of the
init-secret chains started before epoch `N`: the creator's randomness `genesis` and the KEM randomness `ext n`,
`n < N`, of the external commits.  A party that holds only node keys — ANY node keys, e.g. every key of every
tree — and whose own secrets depend on no such root derives no secret that does. -/
theorem init_chain_secrecy {w : GroupWorld} {T : List Transcript} (h : History w T) (N : Nat)
    {K : List Key} {S : List Sec} (hK : ∀ k ∈ K, ∃ st, k = .node st)
    (hS : ∀ s ∈ S, hidden (rootBefore N) s = false) :
    ∀ s, hidden (rootBefore N) s = true → ¬ Derivable K S (sealsOfAll T) (gensOfAll T) (.sec s) :=
  initchain_secrecy h N hK hS

/-- every followed party's epoch secret (of the epoch `e` it is in) depends on a root of a chain started before
`e`, in every reachable world -/
theorem epoch_secrets_depend_on_a_root {w : GroupWorld} (h : Reachable w) :
    ∀ m ∈ w.members, hidden (rootBefore m.epoch) m.secret = true :=
  reachable_rootinv h

/-- **A party that never was a member and never made an external commit** (it holds no root: neither `genesis`
nor the KEM randomness of an external commit; it may hold any node keys, any PSKs, any path secrets) derives no
epoch secret and no init secret of any followed party, from all transcripts of the history — whether the group
was extended by Welcomes or by external commits.  In particular: somebody who merely holds a GroupInfo, but is
neither a member of the old epoch nor the external committer, does not get the new epoch's secrets. -/
theorem never_member_learns_no_epoch_secret {w : GroupWorld} {T : List Transcript} (h : History w T)
    {K : List Key} {S : List Sec} (hK : ∀ k ∈ K, ∃ st, k = .node st)
    (hS : ∀ s ∈ S, hidden (rootBefore w.epoch) s = false) :
    ∀ m ∈ w.members, ¬ Derivable K S (sealsOfAll T) (gensOfAll T) (.sec m.secret) ∧
      ¬ Derivable K S (sealsOfAll T) (gensOfAll T) (.sec m.initSecret) := by
  intro m hm
  have hi := reachable_ginv h.reachable
  have hroot := rootBefore_mono (hi.epochs m hm) _ (reachable_rootinv h.reachable m hm)
  exact ⟨initchain_secrecy h _ hK hS _ hroot, initchain_secrecy h _ hK hS _ hroot⟩

/-- **The external committer is entitled from the epoch it creates on, not before.**  `w` with all its
transcripts `T`; an external commit `w → w'` (transcript `tr`).  Take any party `j` of the new world — in
particular the external committer — with everything the joiner has: the private keys in its slots, the KEM shared
secret `ext n` it chose, its random path secret `fresh n` (hence the whole chain and the commit secret), the PSK,
and the new epoch secret.  From this and ALL transcripts up to and including its own commit it derives neither the
epoch secret nor the init secret of any followed party of the old world — not of the members of the epoch it
ended, not of any earlier epoch: the init-secret chain is cut. -/
theorem external_committer_learns_nothing_earlier {w w' : GroupWorld} {T : List Transcript} {tr : Transcript}
    {gi : Nat} {remove : Option Nat} {L0 nl : Leaf} {fresh : Nat} {psk : Sec} {ctx : Nat}
    {deliverTo : List Nat} (hh : History w T) (hok : ExtOk w remove L0 nl fresh)
    (h : w.externalCommit gi remove L0 nl fresh psk ctx deliverTo = .ok (w', tr))
    {j : Member} (hj : j ∈ w'.members) (hje : j.epoch = w'.epoch) :
    ∀ m ∈ w.members,
      ¬ Derivable (keysOf j.priv) [.ext w.epoch, .fresh w.epoch, psk, j.secret]
          (sealsOfAll (tr :: T)) (gensOfAll (tr :: T)) (.sec m.secret) ∧
      ¬ Derivable (keysOf j.priv) [.ext w.epoch, .fresh w.epoch, psk, j.secret]
          (sealsOfAll (tr :: T)) (gensOfAll (tr :: T)) (.sec m.initSecret) := by
  intro m hm
  have hi := reachable_ginv hh.reachable
  obtain ⟨he, hpsk, u, hall⟩ := ext_cases hi h
  have hpskh : hidden (rootBefore w.epoch) psk = false := by
    cases psk <;> simp_all [Sec.isPskInput, hidden, rootBefore]
  have hjs : hidden (rootBefore w.epoch) j.secret = false := by
    rcases hall j hj with ⟨_, hle⟩ | ⟨_, hsec⟩
    · omega
    · rw [hsec]
      simp [hidden, rootBefore, hidden_pathN, hpskh]
  have hS : ∀ s ∈ [Sec.ext w.epoch, Sec.fresh w.epoch, psk, j.secret],
      hidden (rootBefore w.epoch) s = false := by
    intro s hs
    simp only [List.mem_cons, List.mem_nil_iff, or_false] at hs
    rcases hs with rfl | rfl | rfl | rfl
    · simp [hidden, rootBefore]
    · rfl
    · exact hpskh
    · exact hjs
  have hroot := rootBefore_mono (hi.epochs m hm) _ (reachable_rootinv hh.reachable m hm)
  have hh' : History w' (tr :: T) := .ext hh hok h
  exact ⟨initchain_secrecy hh' _ (keysOf_node _) hS _ hroot, initchain_secrecy hh' _ (keysOf_node _) hS _ hroot⟩

/-! ### the executable closure is sound -/

/-- everything the saturation `saturate` finds is derivable -/
theorem closure_sound (K : List Key) (S : List Sec) (seals : List (Key × Sec)) (gens : List (Sec × Key))
    (U : List Sec) (n : Nat) (f : Fact) (h : f ∈ saturate K S seals gens U n) : Derivable K S seals gens f :=
  saturate_sound K S seals gens U n f h

/-! ### Non-vacuity: the concrete history of `Proofs/GroupExample.lean`

create; 0 adds 1, 2 (path); 1 adds 3 (no path, PSK); 2 commits a path; **0 removes 1 with a path** (epoch 3 → 4,
transcript `tr4`); 2 commits a path (epoch 4 → 5, `tr5`).  `m1` is member 1 as it is in epoch 3. -/

open MlsVerif.Group.Ex

-- member 1's last state: leaf key, the keys of node 1 and of the root; it is a current member of epoch 3
example : keysOf m1.priv = [.node 101, .node 1000, .node 2001] ∧ m1 ∈ w3.members ∧ m1.epoch = w3.epoch ∧
    m1.secret = E w3 := by decide +kernel

-- the hypotheses of the theorem hold on the example
example : m1.priv.self ∈ e4.removes ∧ NoReintro (keysOf m1.priv) e4 (some nl4) 3000 ∧
    NoReintro (keysOf m1.priv) e3 (some nl5) 4000 := by decide +kernel

theorem later45 : Later (keysOf m1.priv) w4 [tr5] w5 :=
  .step (.refl w4) ok5 (by decide +kernel) c5

/-- the theorem on the example: member 1 derives neither the epoch secret of epoch 4 nor that of epoch 5,
nor any path secret of the two commits -/
theorem example_secrecy :
    ¬ Derivable (keysOf m1.priv) [m1.secret, m1.initSecret] (sealsOfAll [tr5, tr4]) (gensOfAll [tr5, tr4])
        (.sec (E w4)) ∧
    ¬ Derivable (keysOf m1.priv) [m1.secret, m1.initSecret] (sealsOfAll [tr5, tr4]) (gensOfAll [tr5, tr4])
        (.sec (E w5)) ∧
    ¬ Derivable (keysOf m1.priv) [m1.secret, m1.initSecret] (sealsOfAll [tr5, tr4]) (gensOfAll [tr5, tr4])
        (.sec (.path (.fresh 3))) := by
  have he : w3.epoch = 3 := by decide +kernel
  have hs := shut_later (shut_first (reachable_ginv reach3) ok4 (by decide +kernel) c4
    (disj_removed (reachable_ginv reach3) ok4 (rm := m1) (by decide +kernel) (by decide +kernel)
      (by decide +kernel) (by decide +kernel) c4)) later45
  have hc : Closed 3 (keysOf m1.priv) [tr5, tr4] := he ▸ hs.closed
  have key := closed_secrecy hc (S := [m1.secret, m1.initSecret]) (by decide +kernel)
  exact ⟨key _ (by decide +kernel), key _ (by decide +kernel), key _ (by decide +kernel)⟩

/-- the same through the history theorem: no current member's secret in epoch 5 -/
example : ∀ m ∈ w5.members, w3.epoch < m.epoch →
    ¬ Derivable (keysOf m1.priv) [m1.secret, m1.initSecret] (sealsOfAll ([tr5] ++ [tr4]))
        (gensOfAll ([tr5] ++ [tr4])) (.sec m.secret) :=
  fun m hm hlt => ((removed_member_forward_secrecy reach3 (rm := m1) (by decide +kernel) (by decide +kernel)
    (by decide +kernel) ok4 (by decide +kernel) c4 later45).2.2 m hm hlt).1

/-- the universe of candidate secrets for the saturation: all sub-terms of the last epoch secret and the
chains of the two commits -/
def U : List Sec :=
  subterms (E w5) ++ [.path (.path (.fresh 3)), .path (.path (.fresh 4)), .path (.path (.path (.fresh 4)))]

/-- what the removed member computes from its last state and the two transcripts -/
def sat1 : List Fact :=
  saturate (keysOf m1.priv) [m1.secret] (sealsOfAll [tr5, tr4]) (gensOfAll [tr5, tr4]) U 8

-- visibly: the old epoch secret and its init secret, but neither the new epoch secrets, nor a path secret of
-- the two commits, nor any new key
example : sat1.contains (.sec (E w3)) = true ∧ sat1.contains (.sec (.initOf (E w3))) = true ∧
    sat1.contains (.sec (E w4)) = false ∧ sat1.contains (.sec (E w5)) = false ∧
    sat1.contains (.sec (.fresh 3)) = false ∧ sat1.contains (.sec (.path (.fresh 3))) = false ∧
    sat1.filterMap (fun f => match f with | .key k => some k | _ => none)
      = [.node 101, .node 1000, .node 2001] := by decide +kernel

/-- in contrast member 2, from its state in epoch 3: it holds the key of node 5 (stamp 2000), opens the root
path secret `fresh 3` of the removal commit, derives the new root key 3000 and the epoch secret of epoch 4 -/
def sat2 : List Fact :=
  saturate (keysOf m2.priv) [m2.secret] (sealsOfAll [tr4]) (gensOfAll [tr4]) U 8

example : sat2.contains (.sec (.fresh 3)) = true ∧ sat2.contains (.key (.node 3000)) = true ∧
    sat2.contains (.sec (E w4)) = true := by decide +kernel

theorem member2_derives : Derivable (keysOf m2.priv) [m2.secret] (sealsOfAll [tr4]) (gensOfAll [tr4])
    (.sec (E w4)) :=
  closure_sound _ _ _ _ U 8 _ (by decide +kernel)

/-! ### a removed member that had missed commits

Member 3 missed commit 2 → 3 and is still in epoch 2 (holding only its leaf key) when, in epoch 5, member 0
removes it with a path (`w5 → w6`).  All commits of the history satisfy `FreshAll`. -/

example : (party w5 3).map (fun m => (m.epoch, keysOf m.priv)) = some (2, [.node 103]) ∧ w5.epoch = 5 := by
  decide +kernel

theorem ghost_secrecy : ∀ m ∈ w6.members, w5.epoch < m.epoch →
    ¬ Derivable (keysOf m3.priv) [m3.secret, m3.initSecret] (sealsOfAll ([] ++ [tr6])) (gensOfAll ([] ++ [tr6]))
        (.sec m.secret) :=
  fun m hm hlt => ((removed_ghost_forward_secrecy reachF5 (rm := m3) (by decide +kernel) (by decide +kernel)
    ok6 (by decide +kernel) c6 (.refl w6)).2.2 m hm hlt).1

-- members 0 and 2 are the parties past epoch 5; their secret is the new epoch secret
example : (w6.members.filter (fun m => decide (w5.epoch < m.epoch))).map (fun m => (m.id, m.secret == E w6))
    = [(0, true), (2, true)] := by decide +kernel

/-! ### the Welcome of commit 1 → 2 (member 3 is added without a path, with an external PSK) -/

example : r2.2.welcome = [{ initKey := 103, joiner := E w2, pathSecret := none }] := by decide +kernel

/-- the joiner, holding the init key of its key package, gets the epoch secret out of the Welcome … -/
theorem joiner_derives : Derivable [.init 103] [] (sealsOfAll [{ pathSeals := [], welcome := r2.2.welcome }]) []
    (.sec (E w2)) :=
  closure_sound _ _ _ _ [] 1 _ (by decide +kernel)

/-- … a party with another init key, even one that knows the external PSK, does not -/
example : ¬ Derivable [.init 999] [.psk 7] (sealsOfAll [{ pathSeals := [], welcome := r2.2.welcome }]) []
    (.sec (E w2)) :=
  welcome_alone (.commit (.init (lf 0)) ok1 c1) c2 (by decide +kernel) (by decide +kernel)
    { initKey := 103, joiner := E w2, pathSecret := none } (by decide +kernel)

/-! ### the negative counterpart: a Remove committed *without* a path

`w3 → w4'`: member 0 commits the Remove of member 1 without an update path: the commit secret is `zero`, there
is no PSK, and the new epoch secret is `epoch (initOf E₃) zero zero ctx` — computable from the old epoch secret
alone.  The removed member CAN derive it.  This is why the library forces a path whenever a Remove (or Update,
or External Init) is committed: `path_required` in `Props/C10.lean`. -/

example : E w4' = .epoch (.initOf (E w3)) .zero .zero 14 ∧ tr4'.pathSeals = [] := by decide +kernel

theorem removed_member_derives_without_path :
    Derivable (keysOf m1.priv) [m1.secret] (sealsOfAll [tr4']) (gensOfAll [tr4']) (.sec (E w4')) :=
  closure_sound _ _ _ _ (subterms (E w4')) 3 _ (by decide +kernel)

-- … while with the path (same proposals, same committer) it cannot: `example_secrecy`.

/-! ### Non-vacuity: external commits (`Proofs/GroupExample.lean`)

Epoch 5 → 6 (`trx6`): party 4 joins by an external commit built from member 0's GroupInfo.  Epoch 6 → 7 (`trx7`):
member 2 has lost its state and re-syncs — an external commit with the Remove of its own old leaf 2.  `m2x`: member
2's OLD state in epoch 6; `j4`: party 4 as it is in epoch 6. -/

-- the old state of member 2: leaf key, the keys of node 5 and of the root; a current member of epoch 6, and the
-- re-sync removes exactly its leaf
example : keysOf m2x.priv = [.node 502, .node 4000, .node 7001] ∧ m2x ∈ wx6.members ∧ m2x.epoch = wx6.epoch ∧
    m2x.secret = E wx6 ∧ (some 2 : Option Nat) = some m2x.priv.self ∧
    NoReintroExt (keysOf m2x.priv) L0y nly 8000 := by decide +kernel

/-- the re-sync theorem on the example: from member 2's old state one derives neither the new epoch secret nor a
path secret of the re-sync commit -/
theorem example_resync_secrecy :
    ¬ Derivable (keysOf m2x.priv) [m2x.secret, m2x.initSecret] (sealsOfAll [trx7]) (gensOfAll [trx7])
        (.sec (E wx7)) ∧
    ¬ Derivable (keysOf m2x.priv) [m2x.secret, m2x.initSecret] (sealsOfAll [trx7]) (gensOfAll [trx7])
        (.sec (.fresh 6)) := by
  obtain ⟨_, h2, h3⟩ := removed_by_external_commit_cannot_derive reachx6 (rm := m2x) (by decide +kernel)
    (by decide +kernel) (by decide +kernel) okx7 (by decide +kernel) cx7
  have he : wx6.epoch = 6 := by decide +kernel
  refine ⟨?_, he ▸ h2 0⟩
  have hm : m2y ∈ wx7.members := by decide +kernel
  have := h3 m2y hm (by decide +kernel)
  rwa [show m2y.secret = E wx7 by decide +kernel] at this

/-- what the old state does give, by saturation: the KEM shared secret `ext 6` (it knows the epoch secret of epoch
6, derives the external key, opens the KEM output) — but no path secret, no new key, not the new epoch secret -/
def satOld : List Fact :=
  saturate (keysOf m2x.priv) [m2x.secret] (sealsOfAll [trx7]) (gensOfAll [trx7])
    (subterms (E wx7) ++ [.path (.fresh 6)]) 8

example : satOld.contains (.sec (.ext 6)) = true ∧ satOld.contains (.key (.ext (E wx6))) = true ∧
    satOld.contains (.sec (.fresh 6)) = false ∧ satOld.contains (.sec (.path (.fresh 6))) = false ∧
    satOld.contains (.sec (E wx7)) = false ∧ satOld.contains (.key (.node 8000)) = false := by decide +kernel

/-- the general statement (b) on the example: from the epoch secret of epoch 6 alone -/
example : Derivable [] [E wx6] trx7.seals trx7.gens (.sec (.ext 6)) := by
  have := external_init_known_to_old_members reachx6 cx7 m2x (by decide +kernel) (by decide +kernel)
  rwa [show m2x.secret = E wx6 by decide +kernel, show wx6.epoch = 6 by decide +kernel] at this

/-- in contrast member 0, from its state in epoch 5 and the transcript of party 4's external commit: it derives
the external key of epoch 5, decapsulates `ext 5`, opens the path secret sealed to its leaf key and computes the
epoch secret of epoch 6 -/
def m0 : Member := (party w5 0).getD ⟨0, ⟨0, []⟩, 0, .zero⟩

theorem member0_follows_external_commit :
    Derivable (keysOf m0.priv) [m0.secret] (sealsOfAll [trx6]) (gensOfAll [trx6]) (.sec (E wx6)) :=
  closure_sound _ _ _ _ (subterms (E wx6)) 6 _ (by decide +kernel)

/-- … and the external committer itself, from its KEM randomness and its random path secret alone -/
theorem joiner_derives_new_epoch : Derivable [] [.ext 5, .fresh 5] (sealsOfAll [trx6]) (gensOfAll [trx6])
    (.sec (E wx6)) :=
  closure_sound _ _ _ _ (subterms (E wx6)) 6 _ (by decide +kernel)

/-- **the chain is cut**: party 4, with everything it has after its external commit and ALL transcripts since the
creation of the group, derives neither the epoch secret of epoch 5 (the one it ended) nor its init secret, nor
those of any earlier epoch held by a followed party (member 1 in epoch 3, member 3 in epoch 2) -/
theorem example_joiner_learns_nothing_earlier :
    ∀ m ∈ w5.members,
      ¬ Derivable (keysOf j4.priv) [.ext w5.epoch, .fresh w5.epoch, .zero, j4.secret]
          (sealsOfAll [trx6, tr5, tr4, r3.2, r2.2, r1.2]) (gensOfAll [trx6, tr5, tr4, r3.2, r2.2, r1.2])
          (.sec m.secret) :=
  fun m hm => (external_committer_learns_nothing_earlier hist5 okx6 cx6 (j := j4) (by decide +kernel)
    (by decide +kernel) m hm).1

example : (party w5 0).map (·.secret) = some (E w5) ∧ keysOf j4.priv = [.node 714, .node 7000, .node 7001] := by
  decide +kernel

/-- somebody who only holds the GroupInfo of epoch 5 (and, say, the external PSK of the history and every node
key of the new tree), but is neither a member nor the external committer: no epoch secret of epoch 6 -/
example : ¬ Derivable [.node 400, .node 7000, .node 7001, .node 714] [.psk 7]
    (sealsOfAll [trx6, tr5, tr4, r3.2, r2.2, r1.2]) (gensOfAll [trx6, tr5, tr4, r3.2, r2.2, r1.2])
    (.sec (E wx6)) := by
  have := (never_member_learns_no_epoch_secret histx6 (K := [.node 400, .node 7000, .node 7001, .node 714])
    (S := [.psk 7]) (by
      intro k hk
      simp only [List.mem_cons, List.mem_nil_iff, or_false] at hk
      rcases hk with rfl | rfl | rfl | rfl <;> exact ⟨_, rfl⟩) (by decide +kernel) j4 (by decide +kernel)).1
  rwa [show j4.secret = E wx6 by decide +kernel] at this

/-- the forward-secrecy theorem over a history WITH an external commit: member 1, removed in epoch 3 → 4, still
derives nothing after the commit 4 → 5 and party 4's external commit 5 → 6 -/
theorem later456 : Later (keysOf m1.priv) w4 [trx6, tr5] wx6 :=
  .ext (.step (.refl w4) ok5 (by decide +kernel) c5) okx6 (by decide +kernel) cx6

example : ∀ m ∈ wx6.members, w3.epoch < m.epoch →
    ¬ Derivable (keysOf m1.priv) [m1.secret, m1.initSecret] (sealsOfAll ([trx6, tr5] ++ [tr4]))
        (gensOfAll ([trx6, tr5] ++ [tr4])) (.sec m.secret) :=
  fun m hm hlt => ((removed_member_forward_secrecy reach3 (rm := m1) (by decide +kernel) (by decide +kernel)
    (by decide +kernel) ok4 (by decide +kernel) c4 later456).2.2 m hm hlt).1

-- all commits of the history, the two external ones included, introduce only keys that no followed party holds
example : ReachableF wx6 := reachFx6

end MlsVerif.Props.C02Group
