import MlsVerif.Props.C09
import MlsVerif.Props.C08
import MlsVerif.Props.C15
/-!
# C07 — a joiner ends up with exactly the members' state; a key package is used once

Model-level statements (tree layer, validated against the implementation by the `joiner` / `slots` rows of the
tree stream):

* `joiner_gets_members_state`: the `j`-th member added by a commit sits at the `j`-th added position, its leaf
  is the leaf node of its key package, and the private state it derives from the Welcome path secret holds
  exactly the keys it is entitled to in the committer's tree (`KeyInv`) — for every position relative to the
  committer, several joiners, any tree shape;
* `joiner_without_path`: a joiner of a commit without update path holds its leaf key only, and that is `KeyInv`
  too (it is unmerged everywhere);
* `joiners_fill_leftmost_blanks`: where joiners are placed;
* `key_package_deleted_last`: in the generated step list of `write_to_storage` the key-package deletion is the
  last fallible step, after the state has been stored — so a crash or fault never deletes the key package of a
  group that is not yet persisted.

Covered by the direct oracle of the check on real clients, not by a theorem: the key package really disappears
from the store after the first write, a Welcome for another key package / with another tree / a stale
GroupInfo fails, external commits (with the HPKE export of the external init secret).
-/
namespace MlsVerif.Props.C07
open MlsVerif.Tree MlsVerif.Pipeline MlsVerif.Gen.Pipelines

theorem joiner_gets_members_state {t0 t1 t' : Tree} {e : Edits} {added : List Nat} {sender : Nat} {nl : Leaf}
    {pk : List (Option Nat)} (hw : WF t0) (hb : batchEdit t0 e = .ok (added, t1))
    {self j : Nat} (hj : added[j]? = some self) (hne : self ≠ sender)
    (hf : FilterOk t1 sender pk) (ha : applyUpdatePath t1 sender nl pk = .ok t') :
    ∃ L, e.adds[j]? = some L ∧ get t' (2 * self) = some (.leaf L) ∧
      ∃ p, joinerPriv t' self L.hpke sender true = .ok p ∧ KeyInv t' p :=
  MlsVerif.Props.C09.commit_joiner hw hb hj hne hf ha

theorem joiners_fill_leftmost_blanks {t t' : Tree} {e : Edits} {added : List Nat} (hs : PreShape t)
    (h : batchEdit t e = .ok (added, t')) :
    ∃ t1 t2, applyRemoves t e.removes.reverse = .ok t1 ∧ applyUpdates t1 e.updates = .ok t2 ∧
      added.length = e.adds.length ∧ added.Pairwise (· < ·) ∧
      (∀ i ∈ added, get t2 (2 * i) = none) ∧
      (∀ j, get t2 (2 * j) = none → j ∈ added ∨ ∀ i ∈ added, i < j) :=
  MlsVerif.Props.C08.batchEdit_adds_leftmost hs h

/-- the key-package deletion is the last step of `write_to_storage` that can fail, and it comes after the
pending epochs have been handed to storage and cleared -/
theorem key_package_deleted_last :
    (match write_to_storage.reverse with
      | Step.fallible _ :: Step.mutate _ :: Step.mutate _ :: _ => true
      | _ => false) = true :=
  MlsVerif.Props.C15.write_clears_before_kp_deletion

end MlsVerif.Props.C07
