import MlsVerif.Proofs.ParentHashReach
import MlsVerif.Proofs.ParentHashChain
/-
C08, "TreeSync" part: in every reachable group state the ratchet tree is PARENT-HASH VALID in the
sense of RFC 9420 §7.9.2, which is what `validate_parent_hashes` (mls-rs
`tree_kem/parent_hash.rs`, called from `tree_validator.rs` for joiners and observers) checks.  So an
honest history never produces a tree that an honest joiner rejects, and every populated node is
authenticated by a chain of parent hashes ending in a (signed) leaf.

Model: `Model/ParentHash.lean` — parent hashes are a separate layer `ph` over the node indexing of
the `Tree` of `Model/Tree.lean` (`PTree`), symbolic (injective) hash terms `PH`;
`validateParentHashes` is the Rust algorithm, `PHValid` the declarative predicate
(`PHLinked`: every non-blank parent has a witness `D` in the resolution of one child `C` with
`D.parent_hash = H(P.key, P.parent_hash, original tree hash of the other child)` and
`resolution(C) \ {D} = P.unmerged ∩ subtree(C)`; `NoFalseLink`: the situations in which
`validate_chain` returns an error do not occur).

The inductive invariant is `PHInv` (`Proofs/ParentHashDefs.lean`): the witnesses, plus "no two
nodes store parent hashes with the same top-level key".  `PHValid` alone is not inductive: a stale
parent hash may by itself be anything, and a Remove can make a higher node the first non-blank
ancestor of the stale node.

Side conditions carried by the statements, all of the kind already present in `Props/C08.lean`:
`WF` of the tree (the C08 invariants), freshness of the new key stamps with respect to the tree
(`StampsBelow`) and with respect to the keys hashed at the top of the stored parent hashes
(`PhKeysBelow`; a key of a meanwhile blanked node survives there).  Only statements live here; the
proofs are in `Proofs/ParentHash*.lean`.
-/
namespace MlsVerif.Props.C08Sync
open MlsVerif.Tree MlsVerif.TreeMath MlsVerif.TreeHash MlsVerif.ParentHash

/-! ### the model of the check -/

/-- the Rust algorithm (`validate_parent_hashes`: chains from the leaves, every non-blank parent
covered exactly once) decides the declarative predicate -/
theorem validate_iff_valid {p : PTree} (hs : PreShape p.t) :
    validateParentHashes p = true ↔ PHValid p := accepts_iff_valid hs

/-- `compute_original_hashes` (shared filtered tree hashes along `filtered_sets`) delivers for each
child `s` of a non-blank parent `P` the tree hash of `s` with `P`'s unmerged leaves filtered out -/
theorem original_hashes_spec {t : Tree} (hs : PreShape t) (hu : UnmergedInv t) {x s : Nat}
    {P : Parent} (hx : get t x = some (.parent P)) (hc : left? x = some s ∨ right? x = some s) :
    origHash t s = treeHashSpec t P.unmerged s := origHash_spec hs hu hx hc

/-- the resolution check of `validate_chain` (sets; `unmerged_in_subtree` takes a slice of the
sorted list) is: `d` is in the resolution of `c`, and the rest of that resolution is exactly the
unmerged leaves of `P` below `c` -/
theorem side_condition_iff {t : Tree} {P : Parent} (hp : P.unmerged.Pairwise (· < ·)) (c d : Nat) :
    sideOk t P c d = true ↔
      (d ∈ resolution t c ∧
       (∀ a ∈ resolution t c, a ≠ d → ∃ u ∈ P.unmerged, below u c ∧ a = 2 * u) ∧
       (∀ u ∈ P.unmerged, below u c → 2 * u ∈ resolution t c ∧ 2 * u ≠ d)) := sideOk_iff hp c d

/-- the invariant of honest histories implies validity -/
theorem invariant_valid {p : PTree} (hw : WF p.t) (hi : PHInv p) :
    PHValid p ∧ validateParentHashes p = true :=
  ⟨phinv_valid hw.2.2.1 hi, valid_accepts_of_preShape hw.1.1 (phinv_valid hw.2.2.1 hi)⟩

/-- in a valid tree every populated node is authenticated by a leaf: it is a non-blank leaf or has
a parent-hash witness that is authenticated (`L <- P_1 <- … <- P_N = P`, RFC 9420 §7.9.2) -/
theorem valid_authenticated {p : PTree} (hs : PreShape p.t) (hu : UnmergedInv p.t)
    (hv : PHValid p) {x : Nat} (hx : get p.t x ≠ none) : Chained p x := valid_chained hs hu hv hx

/-! ### (a) path updates -/

/-- after the committer's `encap` (path keys, `update_parent_hashes(self, false)`) the invariant
holds again, the tree is valid and would be accepted by a joiner -/
theorem update_path_valid {p p' : PTree} {self fresh : Nat} {nl : Leaf} {excl : List Nat}
    {o : EncapOut} (hw : WF p.t) (hi : PHInv p) (hL : ∃ L, get p.t (2 * self) = some (.leaf L))
    (hb : StampsBelow p.t fresh) (hpb : PhKeysBelow p.ph fresh)
    (hnl : nl.hpke ∉ keyStamps p.t) (hnl2 : nl.hpke < fresh)
    (hid : ∀ x L, x ≠ 2 * self → get p.t x = some (.leaf L) → L.ident ≠ nl.ident ∧ L.sig ≠ nl.sig)
    (h : p.encap self nl excl fresh = .ok (o, p')) :
    PHInv p' ∧ PHValid p' ∧ validateParentHashes p' = true ∧
      Tree.encap p.t self nl excl fresh = .ok o ∧ p'.t = o.tree := by
  obtain ⟨hi', ht, hte, _⟩ := encap_phinv hw hi hL hb hpb hnl hnl2 hid h
  have hw' : WF p'.t := ht ▸ wf_encap hw hL hb hnl hnl2 hid hte
  exact ⟨hi', (invariant_valid hw' hi').1, (invariant_valid hw' hi').2, hte, ht⟩

/-- the parent-hash part of `encap` never fails: whenever the tree-level `encap` succeeds, so does
the one with parent hashes -/
theorem update_path_total {p : PTree} {self fresh : Nat} {nl : Leaf} {excl : List Nat}
    {o : EncapOut} (hw : WF p.t) (hL : ∃ L, get p.t (2 * self) = some (.leaf L))
    (hb : StampsBelow p.t fresh) (hpb : PhKeysBelow p.ph fresh)
    (hnl : nl.hpke ∉ keyStamps p.t) (hnl2 : nl.hpke < fresh)
    (hid : ∀ x L, x ≠ 2 * self → get p.t x = some (.leaf L) → L.ident ≠ nl.ident ∧ L.sig ≠ nl.sig)
    (ht : Tree.encap p.t self nl excl fresh = .ok o) :
    ∃ p', p.encap self nl excl fresh = .ok (o, p') :=
  encap_ok_of_tree hw hL hb hpb hnl hnl2 hid ht

/-- a receiver that applies the announced path keys together with the committer's leaf (carrying
the parent hash the committer computed) passes the `verify_leaf_hash = true` check and ends with
the committer's tree and parent hashes -/
theorem sender_receiver_agree {p p' : PTree} {self fresh : Nat} {nl : Leaf} {excl : List Nat}
    {o : EncapOut} (hw : WF p.t) (hL : ∃ L, get p.t (2 * self) = some (.leaf L))
    (hb : StampsBelow p.t fresh) (hpb : PhKeysBelow p.ph fresh)
    (hnl : nl.hpke ∉ keyStamps p.t) (hnl2 : nl.hpke < fresh)
    (hid : ∀ x L, x ≠ 2 * self → get p.t x = some (.leaf L) → L.ident ≠ nl.ident ∧ L.sig ≠ nl.sig)
    (h : p.encap self nl excl fresh = .ok (o, p')) :
    p.applyUpdatePath self nl (phGet p'.ph (2 * self)) o.pathKeys = .ok p' ∧
      (phGet p'.ph (2 * self)).isSome :=
  MlsVerif.ParentHash.sender_receiver_agree hw hL hb hpb hnl hnl2 hid h

/-- … and the receiver's check succeeds exactly for that value: any other `leaf_node_source` in the
committer's leaf makes `apply_update_path` fail -/
theorem receiver_accepts_iff {p p' : PTree} {self fresh : Nat} {nl : Leaf} {excl : List Nat}
    {o : EncapOut} (hw : WF p.t) (hL : ∃ L, get p.t (2 * self) = some (.leaf L))
    (hb : StampsBelow p.t fresh) (hpb : PhKeysBelow p.ph fresh)
    (hnl : nl.hpke ∉ keyStamps p.t) (hnl2 : nl.hpke < fresh)
    (hid : ∀ x L, x ≠ 2 * self → get p.t x = some (.leaf L) → L.ident ≠ nl.ident ∧ L.sig ≠ nl.sig)
    (h : p.encap self nl excl fresh = .ok (o, p')) (lph : Option PH) (p'' : PTree) :
    p.applyUpdatePath self nl lph o.pathKeys = .ok p'' ↔ (lph = phGet p'.ph (2 * self) ∧ p'' = p') :=
  MlsVerif.ParentHash.receiver_accepts_iff hw hL hb hpb hnl hnl2 hid h lph p''

/-- a receiver, for an arbitrary announced path (keys on the unfiltered positions, new for the tree
and for the parent-hash layer): whenever `apply_update_path` succeeds — in particular the
`verify_leaf_hash = true` check — the resulting tree satisfies the invariant and is valid -/
theorem apply_update_path_valid {p p' : PTree} {sender : Nat} {nl : Leaf} {lph : Option PH}
    {pk : List (Option Nat)} (hw : WF p.t) (hi : PHInv p) (hf : FilterOk p.t sender pk)
    (hk1 : ∀ (j k : Nat), pk[j]? = some (some k) → k ∉ keyStamps p.t ∧ k ≠ nl.hpke)
    (hk1' : ∀ (j k : Nat), pk[j]? = some (some k) → ∀ i, topKey p.ph i ≠ some k)
    (hk2 : ∀ (j j' k : Nat), pk[j]? = some (some k) → pk[j']? = some (some k) → j = j')
    (hnl : nl.hpke ∉ keyStamps p.t)
    (hid : ∀ x L, x ≠ 2 * sender → get p.t x = some (.leaf L) → L.ident ≠ nl.ident ∧ L.sig ≠ nl.sig)
    (h : p.applyUpdatePath sender nl lph pk = .ok p') :
    PHInv p' ∧ PHValid p' ∧ validateParentHashes p' = true := by
  obtain ⟨hi', hw', _⟩ := applyUpdatePath_phinv hw hi hf hk1 hk1' hk2 hnl hid h
  exact ⟨hi', (invariant_valid hw' hi').1, (invariant_valid hw' hi').2⟩

/-- what the receiver answers otherwise: `ParentHashMismatch` for a wrong value,
`InvalidLeafNodeSource` for a leaf that is not a commit leaf -/
theorem receiver_rejects {p p' : PTree} {self fresh : Nat} {nl : Leaf} {excl : List Nat}
    {o : EncapOut} (hw : WF p.t) (hL : ∃ L, get p.t (2 * self) = some (.leaf L))
    (hb : StampsBelow p.t fresh) (hpb : PhKeysBelow p.ph fresh)
    (hnl : nl.hpke ∉ keyStamps p.t) (hnl2 : nl.hpke < fresh)
    (hid : ∀ x L, x ≠ 2 * self → get p.t x = some (.leaf L) → L.ident ≠ nl.ident ∧ L.sig ≠ nl.sig)
    (h : p.encap self nl excl fresh = .ok (o, p')) :
    (∀ v, some v ≠ phGet p'.ph (2 * self) →
      p.applyUpdatePath self nl (some v) o.pathKeys = .error .parentHashMismatch) ∧
    p.applyUpdatePath self nl none o.pathKeys = .error .invalidLeafNodeSource := by
  have hsome := (MlsVerif.ParentHash.sender_receiver_agree hw hL hb hpb hnl hnl2 hid h).2
  refine ⟨fun v hv => ?_, ?_⟩
  · exact MlsVerif.ParentHash.receiver_rejects hw hL hb hpb hnl hnl2 hid h (some v) hv
  · apply MlsVerif.ParentHash.receiver_rejects hw hL hb hpb hnl hnl2 hid h none
    intro hc
    rw [← hc] at hsome
    cases hsome

/-- the chain of parent hashes that starts at the committer's new leaf covers every non-blank node
of its direct path, up to the root (`ChainUp`: each step is a §7.9.2 witness link) -/
theorem committer_chain_verifies {p p' : PTree} {self fresh : Nat} {nl : Leaf} {excl : List Nat}
    {o : EncapOut} (hw : WF p.t) (hL : ∃ L, get p.t (2 * self) = some (.leaf L))
    (hb : StampsBelow p.t fresh) (hpb : PhKeysBelow p.ph fresh)
    (hnl : nl.hpke ∉ keyStamps p.t) (hnl2 : nl.hpke < fresh)
    (hid : ∀ x L, x ≠ 2 * self → get p.t x = some (.leaf L) → L.ident ≠ nl.ident ∧ L.sig ≠ nl.sig)
    (h : p.encap self nl excl fresh = .ok (o, p')) :
    ∀ cp ∈ directCopathOf p.t self, get p'.t cp.1 ≠ none → ChainUp p' (2 * self) cp.1 :=
  encap_committer_chain hw hL hb hpb hnl hnl2 hid h

/-- the keys hashed into the new parent hashes are the fresh stamps: the freshness side condition
can be maintained along a history with a counter -/
theorem update_path_keys_below {p p' : PTree} {self fresh : Nat} {nl : Leaf} {excl : List Nat}
    {o : EncapOut} (hw : WF p.t) (hi : PHInv p) (hL : ∃ L, get p.t (2 * self) = some (.leaf L))
    (hb : StampsBelow p.t fresh) (hpb : PhKeysBelow p.ph fresh)
    (hnl : nl.hpke ∉ keyStamps p.t) (hnl2 : nl.hpke < fresh)
    (hid : ∀ x L, x ≠ 2 * self → get p.t x = some (.leaf L) → L.ident ≠ nl.ident ∧ L.sig ≠ nl.sig)
    (h : p.encap self nl excl fresh = .ok (o, p')) :
    PhKeysBelow p'.ph (fresh + o.pathKeys.length) :=
  (encap_phinv hw hi hL hb hpb hnl hnl2 hid h).2.2.2

/-! ### (b) proposals -/

/-- the key lemma: the ORIGINAL tree hash of a child `s` of a surviving parent (the tree hash with
the parent's unmerged leaves filtered out) is not changed by `batch_edit` — added leaves are
recorded in the parent's unmerged list and therefore filtered, and a Remove / Update below the parent
would have blanked it -/
theorem original_hash_stable {t t' : Tree} {e : Edits} {added : List Nat} (hw : WF t) (hw' : WF t')
    (h : Tree.batchEdit t e = .ok (added, t')) {x s : Nat} {P P' : Parent}
    (hP : get t x = some (.parent P)) (hP' : get t' x = some (.parent P'))
    (hs : left? x = some s ∨ right? x = some s) :
    treeHashSpec t' P'.unmerged s = treeHashSpec t P.unmerged s :=
  orig_hash_stable hw hw' h hP hP' hs

/-- `batch_edit` (removes, updates, adds, trim) preserves the invariant, hence validity -/
theorem batchEdit_preserves_valid {p p' : PTree} {e : Edits} {added : List Nat} (hw : WF p.t)
    (hfresh : e.FreshKeys p.t) (hi : PHInv p) (h : p.batchEdit e = .ok (added, p')) :
    PHInv p' ∧ PHValid p' ∧ validateParentHashes p' = true := by
  have hw' : WF p'.t := wf_batchEdit hw hfresh (batchEdit_tree h).1
  have hi' := batchEdit_phinv hw hw' hi h
  exact ⟨hi', (invariant_valid hw' hi').1, (invariant_valid hw' hi').2⟩

/-- `batch_edit` does not introduce new keys into the parent-hash layer -/
theorem batchEdit_keys_below {p p' : PTree} {e : Edits} {added : List Nat} {b : Nat}
    (hb : PhKeysBelow p.ph b) (h : p.batchEdit e = .ok (added, p')) : PhKeysBelow p'.ph b :=
  batchEdit_phKeysBelow hb h

/-- adding a leaf (possibly growing the tree) -/
theorem add_preserves_valid {p p' : PTree} {l : Leaf} {added : List Nat} (hw : WF p.t)
    (hfresh : l.hpke ∉ keyStamps p.t) (hi : PHInv p)
    (h : p.batchEdit ⟨[], [], [l]⟩ = .ok (added, p')) :
    PHInv p' ∧ PHValid p' ∧ validateParentHashes p' = true :=
  batchEdit_preserves_valid hw (by intro l' hl'; simp at hl'; subst hl'; exact hfresh) hi h

/-- removing a member (its direct path is blanked) -/
theorem remove_preserves_valid {p p' : PTree} {r : Nat} {added : List Nat} (hw : WF p.t)
    (hi : PHInv p) (h : p.batchEdit ⟨[r], [], []⟩ = .ok (added, p')) :
    PHInv p' ∧ PHValid p' ∧ validateParentHashes p' = true :=
  batchEdit_preserves_valid hw (by intro l' hl'; simp at hl') hi h

/-- an Update proposal (new leaf node without parent hash, direct path blanked) -/
theorem update_preserves_valid {p p' : PTree} {u : Nat} {l : Leaf} {added : List Nat} (hw : WF p.t)
    (hfresh : l.hpke ∉ keyStamps p.t) (hi : PHInv p)
    (h : p.batchEdit ⟨[], [(u, l)], []⟩ = .ok (added, p')) :
    PHInv p' ∧ PHValid p' ∧ validateParentHashes p' = true :=
  batchEdit_preserves_valid hw (by intro l' hl'; simp at hl'; subst hl'; exact hfresh) hi h

/-! ### (c) all histories -/

/-- the tree of a reachable `PTree` is a reachable tree of `Props/C08` (so all of C08 applies) -/
theorem reachable_tree {p : PTree} (h : PReachable p) : Reachable p.t := (preachable_inv h).1

theorem reachable_invariant {p : PTree} (h : PReachable p) : WF p.t ∧ PHInv p :=
  ⟨preachable_wf h, (preachable_inv h).2⟩

/-- TreeSync: every tree reachable from a one-member group by proposals and committers' path
updates is parent-hash valid -/
theorem reachable_parent_hash_valid {p : PTree} (h : PReachable p) : PHValid p := preachable_valid h

/-- … so `validate_parent_hashes`, run by a joiner or an observer on the tree of any reachable
state, succeeds -/
theorem reachable_accepted_by_joiner {p : PTree} (h : PReachable p) :
    validateParentHashes p = true := preachable_accepted h

/-- … and every populated node of a reachable tree is authenticated by a leaf -/
theorem reachable_authenticated {p : PTree} (h : PReachable p) {x : Nat} (hx : get p.t x ≠ none) :
    Chained p x :=
  valid_chained (preachable_wf h).1.1 (preachable_wf h).2.2.1 (preachable_valid h) hx

/-! ### (d) non-vacuity, and a negative witness -/

private def L (i h : Nat) : Option Node := some (.leaf ⟨i, h, 200 + i⟩)
private def P (k : Nat) (u : List Nat) : Option Node := some (.parent ⟨k, u⟩)
private def hl (i h : Nat) : HT := .leaf i (some ⟨i, h, 200 + i⟩)

/-- tree hash of node 5 (leaves 2, 3) while leaf 3 is absent — also its ORIGINAL hash after leaf 3
has been added as an unmerged leaf of the root -/
private def h5 : HT := .parent none (hl 2 102) (.leaf 3 none)
private def h1 : HT := .parent (some ⟨1000, []⟩) (hl 0 100) (hl 1 301)

/-- three members -/
private def a1 : PTree := ⟨[L 0 100, none, L 1 101, none, L 2 102], [none, none, none, none, none]⟩
/-- … after the commit of leaf 1 (path keys 1000, 1001): chain leaf 1 → node 1 → root -/
private def a2 : PTree :=
  { t := [L 0 100, P 1000 [], L 1 301, P 1001 [], L 2 102],
    ph := [none, some (.node 1001 .empty h5), some (.node 1000 (.node 1001 .empty h5) (hl 0 100)),
      some .empty, none] }
/-- … after adding a fourth member: leaf 3, unmerged at the root (node 5 is blank) -/
private def a3 : PTree :=
  { t := [L 0 100, P 1000 [], L 1 301, P 1001 [3], L 2 102, none, L 3 103],
    ph := [none, some (.node 1001 .empty h5), some (.node 1000 (.node 1001 .empty h5) (hl 0 100)),
      some .empty, none, none, none] }
/-- … after the commit of leaf 2 (path keys 2000, 2001): node 1 keeps its stale parent hash -/
private def a4 : PTree :=
  { t := [L 0 100, P 1000 [], L 1 301, P 2001 [], L 2 302, P 2000 [], L 3 103],
    ph := [none, some (.node 1001 .empty h5), some (.node 1000 (.node 1001 .empty h5) (hl 0 100)),
      some .empty, some (.node 2000 (.node 2001 .empty h1) (hl 3 103)), some (.node 2001 .empty h1),
      none] }
/-- … after removing leaf 0: its direct path (nodes 1, 3) is blanked -/
private def a5 : PTree :=
  { t := [none, none, L 1 301, none, L 2 302, P 2000 [], L 3 103],
    ph := [none, none, some (.node 1000 (.node 1001 .empty h5) (hl 0 100)), none,
      some (.node 2000 (.node 2001 .empty h1) (hl 3 103)), some (.node 2001 .empty h1), none] }

example : (⟨[L 0 100], [none]⟩ : PTree).batchEdit ⟨[], [], [⟨1, 101, 201⟩, ⟨2, 102, 202⟩]⟩ =
    .ok ([1, 2], a1) := by decide +kernel
example : a1.encap 1 ⟨1, 301, 201⟩ [] 1000 =
    .ok (⟨a2.t, [some 301, some 1000, some 1001], [some 1000, some 1001], [(1, [0]), (3, [4])]⟩, a2) := by
  decide +kernel
example : a2.batchEdit ⟨[], [], [⟨3, 103, 203⟩]⟩ = .ok ([3], a3) := by decide +kernel
example : a3.encap 2 ⟨2, 302, 202⟩ [] 2000 =
    .ok (⟨a4.t, [some 302, some 2000, some 2001], [some 2000, some 2001], [(5, [6]), (3, [1])]⟩, a4) := by
  decide +kernel
example : a4.batchEdit ⟨[0], [], []⟩ = .ok ([], a5) := by decide +kernel

-- every state is valid, for the declarative predicate, the Rust algorithm and the invariant
example : PHValid a2 ∧ PHValid a3 ∧ PHValid a4 ∧ PHValid a5 := by decide +kernel
example : validateParentHashes a2 = true ∧ validateParentHashes a3 = true ∧
    validateParentHashes a4 = true ∧ validateParentHashes a5 = true := by decide +kernel
example : PHInv a2 ∧ PHInv a3 ∧ PHInv a4 ∧ PHInv a5 := by decide +kernel
-- the receivers of the two commits verify the committer's parent hash and agree with the committer
example : a1.applyUpdatePath 1 ⟨1, 301, 201⟩ (phGet a2.ph 2) [some 1000, some 1001] = .ok a2 := by
  decide +kernel
example : a3.applyUpdatePath 2 ⟨2, 302, 202⟩ (phGet a4.ph 4) [some 2000, some 2001] = .ok a4 := by
  decide +kernel
-- … and reject any other value in the committer's leaf
example : a1.applyUpdatePath 1 ⟨1, 301, 201⟩ (some .empty) [some 1000, some 1001] =
    .error .parentHashMismatch := by decide +kernel
example : a1.applyUpdatePath 1 ⟨1, 301, 201⟩ none [some 1000, some 1001] =
    .error .invalidLeafNodeSource := by decide +kernel
-- `compute_original_hashes` on the tree with the unmerged leaf: node 5 is hashed without leaf 3
example : origHash a3.t 5 = h5 ∧ treeHashSpec a3.t [] 5 ≠ h5 := by decide +kernel

/-- the predicate is not vacuous: tampering with a stored parent hash (here: node 1 of `a3` gets
the empty parent hash) is detected -/
example : ¬ PHValid { a3 with ph := a3.ph.set 1 (some .empty) } ∧
    validateParentHashes { a3 with ph := a3.ph.set 1 (some .empty) } = false := by decide +kernel

/-- `PHLinked` with the sibling's CURRENT tree hash in place of the original (unmerged-filtered)
one -/
def PHLinkedCurrent (p : PTree) : Prop :=
  ∀ x < p.t.length, ∀ P ∈ parentAt p.t x, ∀ l ∈ left? x, ∀ r ∈ right? x,
    (∃ d ∈ resolution p.t l, phGet p.ph d =
        some (.node P.key ((phGet p.ph x).getD .empty) (treeHashSpec p.t [] r)) ∧
        sideOk p.t P l d = true) ∨
    (∃ d ∈ resolution p.t r, phGet p.ph d =
        some (.node P.key ((phGet p.ph x).getD .empty) (treeHashSpec p.t [] l)) ∧
        sideOk p.t P r d = true)

instance (p : PTree) : Decidable (PHLinkedCurrent p) := by unfold PHLinkedCurrent; infer_instance

/-- NEGATIVE witness: verifying against the sibling's current tree hash instead of the original
one breaks validity as soon as a member has been added below the sibling (`a3`: leaf 3 is unmerged
at the root, the root's witness node 1 was computed when leaf 3 was absent); without unmerged leaves
(`a2`, `a4`) the two notions coincide -/
theorem current_hash_breaks_validity :
    PHValid a3 ∧ ¬ PHLinkedCurrent a3 ∧ PHLinkedCurrent a2 ∧ PHLinkedCurrent a4 := by decide +kernel

/-! ### the freshness side condition `PhKeysBelow` is needed -/

/-- two members after the commit of leaf 0 (path key 1000) -/
private def k0 : PTree :=
  ⟨[L 0 300, P 1000 [], L 1 101], [some (.node 1000 .empty (hl 1 101)), some .empty, none]⟩
/-- … after an Update proposal for leaf 1: the root is blanked, leaf 0 keeps its (now stale) parent
hash, whose top-level key 1000 is no longer a key of the tree -/
private def k1 : PTree :=
  ⟨[L 0 300, none, L 1 302], [some (.node 1000 .empty (hl 1 101)), none, none]⟩
/-- … after a commit of leaf 1 that re-uses the stamp 1000 for the root and its old leaf key 101 -/
private def k2 : PTree :=
  ⟨[L 0 300, P 1000 [], L 1 101],
   [some (.node 1000 .empty (hl 1 101)), some .empty, some (.node 1000 .empty (hl 0 300))]⟩

/-- Without `PhKeysBelow` the theorem fails: all side conditions of `Props/C08`'s `Reachable` hold
(`StampsBelow` — the stamp 1000 is not in the tree any more —, fresh leaf key, `WF` before and
after), but the stamp 1000 still occurs in the stale parent hash of leaf 0.  After the commit BOTH
leaves carry a parent hash that matches the root, so `validate_chain` validates the root twice and
fails.  (Stamps stand for key pairs; real path keys are derived from fresh random secrets and
collide only with negligible probability: a modelling side condition, not a defect.) -/
theorem valid_needs_fresh_path_keys :
    WF k0.t ∧ PHInv k0 ∧ k0.batchEdit ⟨[], [(1, ⟨1, 302, 201⟩)], []⟩ = .ok ([], k1) ∧
    WF k1.t ∧ PHInv k1 ∧ StampsBelow k1.t 1000 ∧ ¬ PhKeysBelow k1.ph 1000 ∧
    (⟨1, 101, 201⟩ : Leaf).hpke ∉ keyStamps k1.t ∧
    k1.encap 1 ⟨1, 101, 201⟩ [] 1000 =
      .ok (⟨k2.t, [some 101, some 1000], [some 1000], [(1, [0])]⟩, k2) ∧
    WF k2.t ∧ ¬ PHValid k2 ∧ validateParentHashes k2 = false := by decide +kernel

/-- other members do not use the identity / signature key of the committer's new leaf -/
private theorem ids_ok (t : Tree) (self : Nat) (nl : Leaf)
    (h : ∀ x < t.length, x ≠ 2 * self →
      ((leafOf? (get t x)).all fun L' => L'.ident ≠ nl.ident ∧ L'.sig ≠ nl.sig) = true) :
    ∀ x L, x ≠ 2 * self → get t x = some (.leaf L) → L.ident ≠ nl.ident ∧ L.sig ≠ nl.sig := by
  intro x L' hx hg
  have := h x (lt_of_get_some hg) hx
  rw [hg] at this
  simpa using this

/-- the history of the examples is a reachable one … -/
theorem example_history_reachable : PReachable a5 := by
  have r1 : PReachable a1 :=
    .edit (e := ⟨[], [], [⟨1, 101, 201⟩, ⟨2, 102, 202⟩]⟩) (added := [1, 2]) (.init ⟨0, 100, 200⟩)
      (by decide +kernel) (by decide +kernel)
  have r2 : PReachable a2 :=
    .path (self := 1) (fresh := 1000) (nl := ⟨1, 301, 201⟩) (excl := [])
      (o := ⟨a2.t, [some 301, some 1000, some 1001], [some 1000, some 1001], [(1, [0]), (3, [4])]⟩)
      r1 ⟨_, rfl⟩ (by decide +kernel) (by decide +kernel) (by decide +kernel) (by decide +kernel)
      (ids_ok _ _ _ (by decide +kernel)) (by decide +kernel)
  have r3 : PReachable a3 :=
    .edit (e := ⟨[], [], [⟨3, 103, 203⟩]⟩) (added := [3]) r2 (by decide +kernel) (by decide +kernel)
  have r4 : PReachable a4 :=
    .path (self := 2) (fresh := 2000) (nl := ⟨2, 302, 202⟩) (excl := [])
      (o := ⟨a4.t, [some 302, some 2000, some 2001], [some 2000, some 2001], [(5, [6]), (3, [1])]⟩)
      r3 ⟨_, rfl⟩ (by decide +kernel) (by decide +kernel) (by decide +kernel) (by decide +kernel)
      (ids_ok _ _ _ (by decide +kernel)) (by decide +kernel)
  exact .edit (e := ⟨[0], [], []⟩) (added := []) r4 (by decide +kernel) (by decide +kernel)

/-- … so the general theorems apply to it (and agree with the direct evaluation above) -/
example : PHValid a5 ∧ validateParentHashes a5 = true :=
  ⟨reachable_parent_hash_valid example_history_reachable,
   reachable_accepted_by_joiner example_history_reachable⟩

end MlsVerif.Props.C08Sync
