import MlsVerif.Proofs.KeySchedule
import MlsVerif.Proofs.SecretTree
/-
C13: the key schedule, PSK chain, exporter, secret tree and message-key ratchets of mls-rs
(models: `Model/KeySchedule.lean`, `Model/SecretTree.lean`) compute the values of RFC 9420 §8/§9
(specification: `Spec/KeySchedule.lean`), for every choice of primitives `P : Prim B`, every input
and every request sequence.  Only statements live here; lemmas are in `Proofs/KeySchedule.lean`
and `Proofs/SecretTree.lean`.
-/
namespace MlsVerif.Props.C13
open MlsVerif.KS MlsVerif.ST MlsVerif.KSSpec MlsVerif.TreeMath

variable {B : Type}

/-! ### Key schedule (§8)

The four theorems of this section are `rfl` after unfolding: model and specification are the same
straight-line composition of `Extract`/`ExpandWithLabel` calls (the model in the code's order and
with the code's `Option` length argument, the specification in the RFC's).  Their content is that
labels, argument order (`Extract(salt, ikm)`), contexts and lengths agree. -/

/-- `KeySchedule::from_key_schedule`: every output is the RFC value of the new epoch -/
theorem fromKeySchedule_eq_spec (P : Prim B) (initSecret commitSecret ctx psk : B) :
    let o := fromKeySchedule P initSecret commitSecret ctx psk
    let j := joinerSecret P initSecret commitSecret ctx
    o.joiner = j ∧
    o.senderData = epochDerived P j psk ctx .senderData ∧
    o.encryption = epochDerived P j psk ctx .encryption ∧
    o.exporter = epochDerived P j psk ctx .exporter ∧
    o.external = epochDerived P j psk ctx .external ∧
    o.confirmationKey = epochDerived P j psk ctx .confirm ∧
    o.membership = epochDerived P j psk ctx .membership ∧
    o.resumption = epochDerived P j psk ctx .resumption ∧
    o.authentication = epochDerived P j psk ctx .authentication ∧
    o.init = epochDerived P j psk ctx .init :=
  ⟨rfl, rfl, rfl, rfl, rfl, rfl, rfl, rfl, rfl, rfl⟩

/-- `KeySchedule::from_joiner` (joining through a Welcome): every derived secret is the RFC value;
the `joiner` field is left empty by the code -/
theorem fromJoiner_eq_spec (P : Prim B) (joiner ctx psk : B) :
    let o := fromJoiner P joiner ctx psk
    o.joiner = P.empty ∧
    o.senderData = epochDerived P joiner psk ctx .senderData ∧
    o.encryption = epochDerived P joiner psk ctx .encryption ∧
    o.exporter = epochDerived P joiner psk ctx .exporter ∧
    o.external = epochDerived P joiner psk ctx .external ∧
    o.confirmationKey = epochDerived P joiner psk ctx .confirm ∧
    o.membership = epochDerived P joiner psk ctx .membership ∧
    o.resumption = epochDerived P joiner psk ctx .resumption ∧
    o.authentication = epochDerived P joiner psk ctx .authentication ∧
    o.init = epochDerived P joiner psk ctx .init :=
  ⟨rfl, rfl, rfl, rfl, rfl, rfl, rfl, rfl, rfl, rfl⟩

/-- `get_welcome_secret`, `WelcomeSecret::from_joiner_secret` -/
theorem welcome_eq_spec (P : Prim B) (joiner psk : B) :
    KS.welcomeSecret P joiner psk = KSSpec.welcomeSecret P joiner psk ∧
    welcomeKeyNonce P joiner psk = (welcomeKey P joiner psk, welcomeNonce P joiner psk) :=
  ⟨rfl, rfl⟩

/-- `KeySchedule::export_secret` is `MLS-Exporter` -/
theorem export_eq_spec (P : Prim B) (exporter label ctx : B) (len : Nat) :
    exportSecret P exporter label ctx len = mlsExporter P exporter label ctx len :=
  rfl

/-! ### PSK chain (§8.4): the loop is the recursion -/

/-- `PskSecret::calculate` (a left fold with a running index) computes `psk_secret_[n]` of the RFC
recursion, for every number `n < 2^16` of PSKs; for `n ≥ 2^16` it fails (`count` is a `uint16`). -/
theorem psk_fold_eq_rec (P : Prim B) (inputs : List (PskInput B)) (h : inputs.length < 65536) :
    KS.pskSecret P inputs = some (specPskSecret P inputs inputs.length) := by
  unfold KS.pskSecret
  rw [if_neg (by omega)]
  have := pskFoldAux_eq P [] inputs
  simp only [List.nil_append, List.length_nil] at this
  rw [specPskSecret_nil] at this
  rw [this]

theorem psk_too_many (P : Prim B) (inputs : List (PskInput B)) (h : 65536 ≤ inputs.length) :
    KS.pskSecret P inputs = none := by
  unfold KS.pskSecret
  rw [if_pos h]

/-! ### Ratchets (§9.1)

The invariant, explicitly (`RInv P s0 r`, `Proofs/SecretTree.lean`):
`r.secret = ratchet_secret_[r.generation]` of the ratchet starting at `s0`, and every history entry
`(g, k)` has `g < r.generation` and `k` = (RFC nonce, RFC key, `g`) of generation `g`. -/

theorem ratchet_invariant_def (P : Prim B) (s0 : B) (r : Ratchet B) :
    RInv P s0 r ↔
      (r.secret = ratchetSecretAt P s0 r.generation ∧
       ∀ e ∈ r.history, e.1 < r.generation ∧ e.2 = specRatchetKey P s0 e.1) :=
  Iff.rfl

/-- it holds initially and is kept by every request, successful or not -/
theorem ratchet_invariant (P : Prim B) (s : B) (kt : KeyType) (reqs : List RReq) :
    RInv P (ratchetSecret0 P s kt) (Ratchet.run P (Ratchet.new P s kt) reqs).2 :=
  (run_RInv P _ reqs _ (RInv_new P s kt)).1

/-- For a ratchet created by `SecretKeyRatchet::new(secret, key_type)` and ANY sequence of
`get_message_key(g)` / `next_message_key()` requests: every successfully returned key is
(RFC nonce, RFC key, generation) of the generation it carries, and a successful `get(g)` carries
generation `g` — whatever was requested before, in whatever order. -/
theorem ratchet_key_eq_spec (P : Prim B) (s : B) (kt : KeyType) (reqs : List RReq)
    (q : RReq) (key : MsgKey B)
    (h : (q, Except.ok key) ∈ (Ratchet.run P (Ratchet.new P s kt) reqs).1) :
    key = specRatchetKey P (ratchetSecret0 P s kt) key.generation ∧
    ∀ g, q = .get g → key.generation = g :=
  (run_RInv P _ reqs _ (RInv_new P s kt)).2 q key h

/-! ### Secret tree (§9)

The invariant over the stored map `known` needed for *correctness* of keys (`KInv`): every stored
secret is the RFC secret of its node; every stored pair of ratchets satisfies the ratchet invariant
with respect to the RFC secret of its node.  No condition on the shape of the stored set is needed
for correctness (it is needed for availability: see `secret_tree_leaf_available`). -/

theorem tree_invariant_def (P : Prim B) (k : Nat) (enc : B) (t : SecretTree B) :
    KInv P k enc t ↔
      (t.leafCount = 2 ^ k ∧ ∀ e ∈ t.known,
        match e.2 with
        | .secret s => specNodeSecret P k enc e.1 = some s
        | .ratchet a h => ∃ s, specNodeSecret P k enc e.1 = some s ∧
            RInv P (ratchetSecret0 P s .application) a ∧ RInv P (ratchetSecret0 P s .handshake) h) := by
  unfold KInv
  constructor <;> rintro ⟨h1, h2⟩ <;> refine ⟨h1, fun e he => ?_⟩ <;> have := h2 e he <;>
    obtain ⟨i, n⟩ := e <;> cases n <;> exact this

theorem tree_invariant (P : Prim B) (k : Nat) (enc : B) (ops : List Req) :
    KInv P k enc (SecretTree.run P (SecretTree.new (2 ^ k) enc) ops).2 :=
  (run_KInv P k enc ops _ (KInv_new P k enc)).1

/-- For `SecretTree::new(2^k, encryption_secret)` and ANY finite sequence of
`next_message_key(idx, kt)` / `message_key_generation(idx, kt, g)` requests with ARBITRARY node
indices: every successful result for index `idx` is the ratchet key of the generation it carries
derived from `tree_node_[idx]_secret` (so `idx` is a node of the tree), and a successful
`message_key_generation(…, g)` carries generation `g`.

`specNodeMsgKey` is the RFC's `specMsgKey` extended to parent nodes.  The extension is necessary:
the code does not check that `idx` is a leaf — see `nonleaf_request_succeeds` below. -/
theorem secret_tree_key_eq_node_spec (P : Prim B) (k : Nat) (enc : B) (ops : List Req)
    (q : Req) (key : MsgKey B)
    (h : (q, Except.ok key) ∈ (SecretTree.run P (SecretTree.new (2 ^ k) enc) ops).1) :
    specNodeMsgKey P k enc q.idx q.kt key.generation = some key ∧
    ∀ i kt g, q = .get i kt g → key.generation = g :=
  (run_KInv P k enc ops _ (KInv_new P k enc)).2 q key h

/-- The RFC statement: every successful result *for a leaf index* (even node index; this is what
`ciphertext_processor.rs` passes: `NodeIndex::from(LeafIndex)`) is the RFC key
`specMsgKey P k enc idx kt g`, whatever else — including requests at parent indices or outside
the tree — is in the sequence; in particular `idx` is then a leaf of the tree. -/
theorem secret_tree_key_eq_spec (P : Prim B) (k : Nat) (enc : B) (ops : List Req)
    (q : Req) (key : MsgKey B)
    (h : (q, Except.ok key) ∈ (SecretTree.run P (SecretTree.new (2 ^ k) enc) ops).1)
    (hleaf : q.idx % 2 = 0) :
    specMsgKey P k enc q.idx q.kt key.generation = some key ∧
    q.idx ≤ 2 * (2 ^ k - 1) ∧
    ∀ i kt g, q = .get i kt g → key.generation = g := by
  have := secret_tree_key_eq_node_spec P k enc ops q key h
  refine ⟨by unfold specMsgKey; rw [if_pos hleaf]; exact this.1, ?_, this.2⟩
  have h1 := this.1
  unfold specNodeMsgKey at h1
  cases hs : specNodeSecret P k enc q.idx with
  | none => rw [hs] at h1; cases h1
  | some s =>
    have := specNodeSecret_range P k enc s q.idx hs
    have := pow_succ' k
    omega

/-- a successful result at an index that is not a node of the tree is impossible -/
theorem secret_tree_outside_fails (P : Prim B) (k : Nat) (enc : B) (ops : List Req)
    (q : Req) (key : MsgKey B)
    (h : (q, Except.ok key) ∈ (SecretTree.run P (SecretTree.new (2 ^ k) enc) ops).1) :
    q.idx < 2 ^ (k + 1) - 1 := by
  have h1 := (secret_tree_key_eq_node_spec P k enc ops q key h).1
  unfold specNodeMsgKey at h1
  cases hs : specNodeSecret P k enc q.idx with
  | none => rw [hs] at h1; cases h1
  | some s => exact specNodeSecret_range P k enc s q.idx hs

/-! ### The original formulation is false at parent indices

"Every successful result for node index `idx` equals `specMsgKey … idx …`, in particular `idx` is
a leaf" does NOT hold for arbitrary `idx`: `take_leaf_ratchet` does not check that the index is a
leaf.  If a *parent* index is passed whose secret is currently stored (or appears while walking
down), the parent's secret is turned into a pair of ratchets and a key is returned that RFC 9420
does not define; the subtree below that parent is then lost: later requests for its leaves fail
with `InvalidLeafConsumption`, and the secret that was turned into ratchets is no longer deleted
by the walk.  `secret_tree_key_eq_node_spec` above is the precise true statement.  The callers in
mls-rs (`ciphertext_processor.rs`) pass `NodeIndex::from(LeafIndex)`, i.e. even indices only. -/

/-- concrete counterexample: 2 leaves (nodes 0, 1, 2), request at the root 1 -/
theorem nonleaf_request_succeeds :
    okGen (SecretTree.step toyPrim (SecretTree.new (2 ^ 1) [7]) (.next 1 .application)).1 = some 0 ∧
    specMsgKey toyPrim 1 [7] 1 .application 0 = none ∧
    (specNodeMsgKey toyPrim 1 [7] 1 .application 0).isSome = true := by
  decide +kernel

/-- … after which both leaves are unusable -/
theorem nonleaf_request_breaks_subtree :
    (results (SecretTree.run toyPrim (SecretTree.new (2 ^ 1) [7])
        [.next 1 .application, .next 0 .application, .next 2 .handshake]).1).tail =
      [.error .invalidLeafConsumption, .error .invalidLeafConsumption] := by
  decide +kernel

/-! ### Availability of leaves

Shape invariant of the stored map (`FInv k t`, `Proofs/SecretTree.lean` §6), kept by every request
*at a leaf of the tree*: the stored indices form a frontier of the tree (`Front`: recursively, a
subtree either has exactly its root stored, or its root is not stored and both child subtrees are
frontiers — so every leaf has exactly one stored ancestor-or-self, and stored indices are pairwise
unrelated), every stored parent entry is an unconsumed secret (ratchets sit at leaves only), and —
separately, for every request sequence whatsoever — the keys of the association list are distinct
(`known_keys_nodup`). -/

theorem leaf_iff (k i : Nat) : IsLeafOf k i ↔ (i % 2 = 0 ∧ i ≤ 2 * (2 ^ k - 1)) := by
  have := Nat.two_pow_pos k
  have := pow_succ' k
  unfold IsLeafOf; omega

theorem shape_invariant (P : Prim B) (k : Nat) (enc : B) (ops : List Req)
    (hops : ∀ q ∈ ops, q.idx % 2 = 0 ∧ q.idx ≤ 2 * (2 ^ k - 1)) :
    FInv k (SecretTree.run P (SecretTree.new (2 ^ k) enc) ops).2 :=
  (run_FInv P k ops _ (FInv_new k enc) (fun q hq => (leaf_iff k q.idx).2 (hops q hq))).1

theorem known_keys_nodup (P : Prim B) (n : Nat) (enc : B) (ops : List Req) :
    ((SecretTree.run P (SecretTree.new n enc) ops).2.known.map (·.1)).Nodup :=
  run_KNodup P ops _ (by simp [KNodup, SecretTree.new])

/-- On a fresh tree, as long as all requests are at leaves of the tree (even index
`≤ 2·(2^k − 1)`), no request ever fails with `LeafNodeNoChildren` or `InvalidLeafConsumption`:
the only possible errors are the ratchet's (`KeyMissing`, `InvalidFutureGeneration`, overflow). -/
theorem secret_tree_leaf_available (P : Prim B) (k : Nat) (enc : B) (ops : List Req)
    (hops : ∀ q ∈ ops, q.idx % 2 = 0 ∧ q.idx ≤ 2 * (2 ^ k - 1))
    (q : Req) (res : Except Err (MsgKey B))
    (h : (q, res) ∈ (SecretTree.run P (SecretTree.new (2 ^ k) enc) ops).1) :
    res ≠ .error .leafNodeNoChildren ∧ res ≠ .error .invalidLeafConsumption :=
  (run_FInv P k ops _ (FInv_new k enc) (fun q hq => (leaf_iff k q.idx).2 (hops q hq))).2 q res h

/-- … and `next_message_key` at a leaf always succeeds -/
theorem secret_tree_next_succeeds (P : Prim B) (k : Nat) (enc : B) (ops : List Req)
    (hops : ∀ q ∈ ops, q.idx % 2 = 0 ∧ q.idx ≤ 2 * (2 ^ k - 1))
    (i : Nat) (kt : KeyType) (hi : i % 2 = 0 ∧ i ≤ 2 * (2 ^ k - 1)) :
    ∃ key, ((SecretTree.run P (SecretTree.new (2 ^ k) enc) ops).2.step P (.next i kt)).1 = .ok key := by
  obtain ⟨key, _, h, _⟩ := step_next_at P k _ i kt (shape_invariant P k enc ops hops)
    ((leaf_iff k i).2 hi)
  exact ⟨key, h⟩

/-! ### Non-vacuity

Toy primitives `toyPrim` over `B := List Nat` (tagged, length-prefixed concatenations); the model
is evaluated by the kernel (`decide +kernel`, no extra axioms; `level` of `TreeMath` is defined by
well-founded recursion, which elaborator-`decide` does not unfold), the specification by `decide`. -/

/-- a request sequence on a tree with 4 leaves (nodes 0…6): out-of-order `get`s on leaf node 4, a
replay, a `next`, a request at a parent whose subtree is already opened, one outside the tree, one
beyond the window, one at the edge of the window -/
def demoOps : List Req :=
  [.get 4 .application 2, .next 0 .handshake, .get 4 .application 0, .get 4 .application 0,
   .next 4 .application, .next 5 .application, .next 8 .application,
   .get 6 .handshake 1030, .get 6 .handshake 1024]

example : (results (SecretTree.run toyPrim (SecretTree.new (2 ^ 2) [7]) demoOps).1).map okGen =
    [some 2, some 0, some 0, none, some 3, none, none, none, some 1024] := by decide +kernel

-- the first result, spelled out, is the specification's key (both sides evaluated)
example : (results (SecretTree.run toyPrim (SecretTree.new (2 ^ 2) [7]) demoOps).1).head? =
    (specMsgKey toyPrim 2 [7] 4 .application 2).map .ok := by decide +kernel

example : (specMsgKey toyPrim 2 [7] 4 .application 2).isSome = true := by decide
example : specMsgKey toyPrim 2 [7] 5 .application 0 = none ∧
    specMsgKey toyPrim 2 [7] 8 .application 0 = none := by decide

-- the theorems instantiated: hypotheses are satisfiable
example : ∀ q key, (q, Except.ok key) ∈
      (SecretTree.run toyPrim (SecretTree.new (2 ^ 2) [7]) demoOps).1 → q.idx % 2 = 0 →
    specMsgKey toyPrim 2 [7] q.idx q.kt key.generation = some key :=
  fun q key h hl => (secret_tree_key_eq_spec toyPrim 2 [7] demoOps q key h hl).1

example : ((.get 4 .application 2 : Req), Except.ok (specRatchetKey toyPrim
      (ratchetSecret0 toyPrim ((specNodeSecret toyPrim 2 [7] 4).getD []) .application) 2)) ∈
    (SecretTree.run toyPrim (SecretTree.new (2 ^ 2) [7]) demoOps).1 := by decide +kernel

-- PSK chain: two PSKs
example : KS.pskSecret toyPrim [⟨[1], [10]⟩, ⟨[2], [20]⟩] =
    some (toyPrim.extract (pskInput toyPrim [2] [20] 1 2)
      (toyPrim.extract (pskInput toyPrim [1] [10] 0 2) (toyPrim.zeros 32))) := by decide
example : specPskSecret toyPrim [⟨[1], [10]⟩, ⟨[2], [20]⟩] 2 =
    toyPrim.extract (pskInput toyPrim [2] [20] 1 2)
      (toyPrim.extract (pskInput toyPrim [1] [10] 0 2) (toyPrim.zeros 32)) := by decide

-- a ratchet: out-of-order requests, a replay (fails), a `next`
example : (results (Ratchet.run toyPrim (Ratchet.new toyPrim [9] .handshake)
      [.get 3, .get 1, .get 1, .next, .get 0]).1).map okGen =
    [some 3, some 1, none, some 4, some 0] := by decide
example : (results (Ratchet.run toyPrim (Ratchet.new toyPrim [9] .handshake)
      [.get 3, .get 1, .get 1, .next, .get 0]).1)[1]? =
    some (.ok (specRatchetKey toyPrim (ratchetSecret0 toyPrim [9] .handshake) 1)) := by decide

-- key schedule: model and specification evaluate to the same concrete value
example : (fromKeySchedule toyPrim [1] [2] [3] [4]).encryption =
    epochDerived toyPrim (joinerSecret toyPrim [1] [2] [3]) [4] [3] .encryption := by decide
example : (fromKeySchedule toyPrim [1] [2] [3] [4]).encryption ≠
    (fromKeySchedule toyPrim [1] [2] [3] [4]).exporter := by decide

end MlsVerif.Props.C13
