import MlsVerif.Props.C09
import MlsVerif.Props.C08
import MlsVerif.Props.C11
import MlsVerif.Props.C13
/-!
# C01 — all members that process the same commits reach the same epoch state

The statement is assembled from the layers, each validated against the implementation by its own
correspondence stream:

* **public state**: the tree every receiver computes from the announced update path is the committer's tree
  (`receivers_compute_committers_tree`), and it is the deterministic function `batchEdit`/`encap` of the old tree
  and the applied proposals (C10: both sides apply the same proposals);
* **secrets**: each receiver opens exactly the ciphertext the committer sealed to a key the receiver holds
  (`receiver_opens_committers_seal`), so it starts the path-secret chain at the committer's value for its
  common-ancestor node and, iterating the same derivation, ends at the committer's commit secret
  (`chain_meets`); the key schedule is a function of (init secret, commit secret, context, PSK secret)
  (`epoch_secrets_function`, with C13: equal to the RFC formulas), so authenticator, exporter and all keys agree;
* **every member, every history**: `all_members_hold_their_keys` (the invariant that makes the two items above
  applicable at every commit of every reachable world);
* **epoch counter**: `epoch_moves_by_one` (C11).

What is *not* a theorem here and is covered by the direct oracle of the check on real groups: that the real HPKE
open succeeds (C14 `hpke_correct` covers the construction), the transcript-hash chain over real messages, and
cross-decryption of application messages (C05/C13 give key agreement).
-/
namespace MlsVerif.Props.C01
open MlsVerif.Tree

/-- receivers compute the committer's tree from the announced path -/
theorem receivers_compute_committers_tree {t : Tree} {self fresh : Nat} {newLeaf : Leaf} {excl : List Nat}
    {o : EncapOut} (hL : ∃ L, get t (2 * self) = some (.leaf L))
    (h : encap t self newLeaf excl fresh = .ok o) :
    applyUpdatePath t self newLeaf o.pathKeys = .ok o.tree :=
  MlsVerif.Props.C09.receivers_tree_agrees hL h

/-- the ciphertext a receiver opens is one the committer sealed to a node whose key the receiver holds -/
theorem receiver_opens_committers_seal {t0 t1 : Tree} {e : Edits} {added : List Nat} {sender fresh : Nat}
    {nl : Leaf} {o : EncapOut} (hw : WF t0) (hb : batchEdit t0 e = .ok (added, t1))
    (hL : ∃ L, get t1 (2 * sender) = some (.leaf L))
    (he : encap t1 sender nl added fresh = .ok o)
    {p : Priv} (hk : KeyInv t0 p) (hm : ∃ L, get t0 (2 * p.self) = some (.leaf L))
    (ht : p.self ∉ e.touched) (hne : p.self ≠ sender) :
    ∃ d, decap o.tree (provisionalPriv t1 p none) sender o.pathKeys added = .ok d ∧
      KeyInv o.tree d.priv ∧
      ∃ n rs resNode key, (n, rs) ∈ o.seals ∧ rs[d.ctPos]? = some resNode ∧
        (provisionalPriv t1 p none).keys[d.slot]? = some (some key) ∧
        (get o.tree resNode).map Node.key = some key := by
  obtain ⟨_, d, h1, h2, _, h4⟩ := MlsVerif.Props.C09.commit_receiver hw hb hL he hk hm ht hne
  exact ⟨d, h1, h2, h4⟩

/-- The path-secret chain: the committer derives `s, next s, next (next s), …` bottom-up; a receiver that
learns the `j`-th secret and applies the same derivation `m - j` more times holds the committer's `m`-th
secret — in particular the commit secret — whatever `next` is. -/
def chain (next : Nat → Nat) (s : Nat) : Nat → Nat
  | 0 => s
  | n + 1 => next (chain next s n)

theorem chain_meets (next : Nat → Nat) (s : Nat) (j m : Nat) (h : j ≤ m) :
    chain next (chain next s j) (m - j) = chain next s m := by
  induction m with
  | zero => have : j = 0 := by omega
            subst this; rfl
  | succ m ih =>
    by_cases hj : j = m + 1
    · subst hj; simp [chain]
    · have hle : j ≤ m := by omega
      have : m + 1 - j = (m - j) + 1 := by omega
      rw [this]; simp only [chain]; rw [ih hle]

/-- the key schedule is a function of its inputs: equal inputs, equal epoch secrets (all ten of them) -/
theorem epoch_secrets_function {B : Type} (P : MlsVerif.KS.Prim B) (i c ctx psk i' c' ctx' psk' : B)
    (h1 : i = i') (h2 : c = c') (h3 : ctx = ctx') (h4 : psk = psk') :
    MlsVerif.KS.fromKeySchedule P i c ctx psk = MlsVerif.KS.fromKeySchedule P i' c' ctx' psk' := by
  subst h1 h2 h3 h4; rfl

/-- in every reachable world the tree is well-formed and every member holds exactly the keys it is entitled to -/
theorem all_members_hold_their_keys {w : World} (h : ReachableWorld w) : w.Good :=
  MlsVerif.Props.C09.reachable_world_good h

/-- the epoch number moves by exactly one per installed commit: whenever a step changes a member's state, the new
state is exactly one epoch later (a member removed by the commit it processes keeps its state and epoch — `hne` fails —
see `C11.removed_receiver_stays`; `C11.step_member` gives the full stays-or-plus-one alternative) -/
theorem epoch_moves_by_one (w : MlsVerif.Pending.World) (op : MlsVerif.Pending.Op) (hi : MlsVerif.Pending.Inv w)
    (m : Nat) (x x' : MlsVerif.Pending.Member)
    (hm : w.members[m]? = some x) (hm' : (MlsVerif.Pending.step w op).1.members[m]? = some x')
    (hne : x'.cur ≠ x.cur) :
    (MlsVerif.Pending.step w op).1.epoch x'.cur = w.epoch x.cur + 1 :=
  (MlsVerif.Props.C11.epoch_increases_by_one w op hi m x x' hm hm' hne).2

example : chain (· * 2 + 1) 3 4 = chain (· * 2 + 1) (chain (· * 2 + 1) 3 1) 3 := by decide

end MlsVerif.Props.C01
